#!/bin/bash
# Build the harness binary against /repo's current working tree with the hooks on.
#   ./build.sh [small|ship]   -> /verif/.target/<cfg>/release/vh
set -e
cd "$(dirname "$0")/harness"
CFG="${1:-small}"
export RUSTFLAGS="--cfg arc_swap_verif"
export CARGO_NET_OFFLINE=true
export CARGO_TARGET_DIR=/verif/.target/$CFG
FEAT=""
if [ "$CFG" = "small" ]; then FEAT="--features small"; fi
cargo build --release --offline $FEAT "${@:2}"
