#!/bin/bash
# Build the harness binary against /repo's current working tree with the hooks on.
#   ./build.sh [small|ship|rel]   -> /verif/.target/<cfg>/release/vh
set -e
cd "$(dirname "$0")/harness"
CFG="${1:-small}"
export RUSTFLAGS="--cfg arc_swap_verif"
export CARGO_NET_OFFLINE=true
export CARGO_TARGET_DIR=/verif/.target/$CFG
FEAT=""
if [ "$CFG" = "small" ]; then FEAT="--features small"; fi
# "rel": the small configuration as a plain release build: debug assertions and overflow checks OFF
# (code inside debug_assert! is not executed there). Used for the sequential checks.
if [ "$CFG" = "rel" ]; then
  FEAT="--features small"
  export CARGO_PROFILE_RELEASE_DEBUG_ASSERTIONS=false
  export CARGO_PROFILE_RELEASE_OVERFLOW_CHECKS=false
fi
cargo build --release --offline $FEAT "${@:2}"
