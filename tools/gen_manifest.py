#!/usr/bin/env python3
"""Generates /verif/MANIFEST.json from the table below (kept in one place so it stays valid)."""
import json, subprocess, sys

ENGINE_NOTE = ("Trusted base: the hand-rolled engine /verif/rt (validated by litmus, interleaving-count and replay self tests), "
               "the two verdict memory models of DESIGN §5 (promise-free view semantics, an under-approximation of C11 for relaxed/acquire/release; M2: a SeqCst access = leading SeqCst fence + acquire/release access, "
               "what every hardware mapping guarantees; M3L: SeqCst accesses ordered only per location plus SeqCst fences and a failing compare-exchange reads the newest value, what Miri implements; "
               "every instance runs under M2, the small ones with stale reads in their budget also under M3L), the cfg(arc_swap_verif) hooks, the instrumented RefCnt pointer VArc, and the stated bounds "
               "(threads, calls, preemptions, stale reads, spurious CAS failures, free atomic-call placements; 2 fast slots per node in the quick tier, 2 and the shipped 8 in the thorough tier).")

CLAIMED = {
 "C01": dict(text="Bounded exhaustive exploration of the real crate: every schedule with at most P preemptions, every read-from choice with at most S stale reads and every spurious weak-CAS failure up to F, of 2-4 thread harnesses on the fast, full (all fast slots occupied) and fallback-only paths, with fresh and reused addresses. Oracle: instrumented pointees that are never really freed, so any touch after logical destruction, and any wild pointer, is reported on the execution where it happens.",
             technique="stateless model checking of the implementation (controlled scheduler + view-based weak memory model, preemption/stale-read bounded DFS)", ref="§7 C01"),
 "C02": dict(text="Same executions as C01; oracle is the exact count equation strong + occupied debt slots == containers + handles + guards at every quiescent point, and at the end every value destroyed exactly once, every slot empty, every control word idle, no writer reservation left, no hand-over envelope owned by two debt nodes.",
             technique="stateless model checking of the implementation; ownership-accounting invariant on every explored execution", ref="§7 C02"),
 "C03": dict(text="Recorded call/return histories of every explored execution are checked for linearizability against an atomic-cell specification (memoised Wing-Gong search); real-time order binds calls that read nothing stale, happens-before binds the others.",
             technique="stateless model checking of the implementation + brute-force linearizability check per execution", ref="§7 C03"),
 "C04": dict(text="Concurrent store/swap writers with a reader on all paths; history oracle plus the chain oracle (no value handed back more often than stored, final value is a stored one) and use of returned handles after the container was consumed.",
             technique="stateless model checking of the implementation + history/chain oracles", ref="§7 C04"),
 "C07": dict(text="The pointee payload is a race cell: written by the creator before the store, read through every kind of handle, written by the destructor. A FastTrack-style vector-clock detector over the model's happens-before relation reports any unordered pair, on every explored execution including stale reads.",
             technique="stateless model checking of the implementation with a vector-clock data-race detector on the pointee", ref="§7 C07"),

 "C05": dict(text="compare_and_swap against a reader, against an A-B-A writer (store b, store a again between the internal load and the exchange), against a second compare_and_swap, and with a current value that is not stored; spurious failures of the weak exchange are enumerated. Oracles: history linearizable with CAS semantics (replaces iff stored == current, returns the previous value), counts exact (the rejected new value is released exactly once).",
             technique="stateless model checking of the implementation + linearizability check with compare-and-swap semantics", ref="§7 C05"),
 "C06": dict(text="Two concurrent rcu increments, rcu against store / swap / reader, and a re-entrant closure (loads the same and another container, nested rcu). Oracles: final counter equals the successful updates in history order (no lost update), history linearizable with rcu as an atomic read-modify-write, every value created by a discarded attempt is dead at the end and was never returned by any load.",
             technique="stateless model checking of the implementation + history / lost-update oracles", ref="§7 C06"),
 "C08": dict(text="Adversary schedule family enumerated completely: for a reader holding 0, 1, S, S+1 guards on every path, every distribution of up to 4 complete writer calls over the gaps between the reader's own steps; plus all preemption-bounded harnesses. Oracles: absolute cap on a load's own steps, and a relational one: the maximum does not grow from 2 to 4 interfering writes (a retry loop would).",
             technique="stateless model checking of the implementation under an adversarial scheduler; per-call step counting", ref="§7 C08, §6.2"),
 "C09": dict(text="Every explored prefix of every harness is followed by a suffix in which the running thread proceeds alone while all others stay frozen where they are (mid-load, inside the read-intent window, inside a debt walk, holding guards); every store, swap, compare_and_swap, rcu, into_inner, container drop and guard drop must finish within a cap of its own steps. A spin-wait or deadlock exceeds the cap.",
             technique="stateless model checking of the implementation; solo-completion probe from every explored state with per-call step caps", ref="§7 C09, §6.2"),
 "C10": dict(text="Guards held across writes (1, S, S+1 of them), released in enumerated orders and through Guard::into_inner, guards outliving a consumed or dropped container, guards moved to another thread after their creator exited while a new thread claims the creator's node. Oracles: identity seen through each guard at every use, poison, exact counts at quiescence.",
             technique="stateless model checking of the implementation + snapshot/identity oracle", ref="§7 C10"),
 "C11": dict(text="Strictly sequential thread churn (node count must stay 1), a thread exiting while another starts while a writer walks the list, two new threads racing for the cooling node of an exited one, a helping writer still inside the node of an exited thread when its next owner starts a transaction (3 preemptions; also with one stale read under the second model), operations after thread-local teardown (temporary node path), a pointee destructor that uses a container. Oracles: node-count bounds through the introspection hook, no node owned at the end, the crate's own debug assertions, all C01-C03 oracles.",
             technique="stateless model checking of the implementation with engine-managed thread-local storage and thread exit as explored events", ref="§7 C11"),
 "C12": dict(text="A reader of container A (on every path) against writers of container B sharing the same per-thread node, optionally a writer of A, optionally one value stored in both; a variant where B has a different pointee type so that a mis-directed help or payment is a type-tag violation. Oracles: per-container linearizability, provenance of every loaded identity, exact counts.",
             technique="stateless model checking of the implementation + per-container history and provenance oracles", ref="§7 C12"),
 "C13": dict(text="Panic oracle on every engine harness (debug assertions on; a panic is recorded inside the panic hook and the execution abandoned before unwinding), plus the generation wrap-around family: the helping generation counter is preset 1 and 2 transactions before its wrap (through a hook), then fallback loads run against a helping writer, the wrap inside the nested load of a helping writer, a thread starting inside that race, a fresh thread claiming the discarded node at once; after a wrap every other oracle failure also counts. The unchanged tree violated this (fixed by /repo commits bdc6940 and fd73936, see known_findings.json).",
             technique="stateless model checking of the implementation with the transaction counter preset near its maximum; panic / abort oracle", ref="§7 C13, §8.1"),

 "C14": dict(text="Explicit-state search over the public API: a plain-variable reference model defines the abstract state (per container the stored identity, multisets of live guards and owned handles, within caps); breadth-first search to closure of the capped state space; every transition's path is replayed on fresh real objects under DefaultStrategy, FillFastSlots and RwLock<()> and compared (returned identities, what every container and guard denotes, exact count equation strong + debt slots == owners, everything released at the end). Plus hand-shaped programs with S, S+1, S+2 guards around every kind of write in three release orders.",
             technique="explicit-state model checking of a reference model with every transition replayed against the implementation (trace conformance)", ref="§7 C14",
             note="Trusted base: the 60-line reference model in harness/src/seq.rs, std::sync::Arc's strong_count, the slot-introspection hook. Caps: 2 containers, 3 values + None, guards <= S+1 (quick) / S+2 (thorough), handles <= 2/3; the small build has 2 fast slots so the search crosses the slot limit; the shipped 8-slot build is searched depth-limited in the thorough tier."),
 "C15": dict(text="Complete enumeration of the finite configuration space pointer kind (Arc, Rc, Option of either, sync::Weak, rc::Weak, Option<Option<Arc>>) x pointee layout (u8, usize, String, ZST, align-64, over-aligned ZST) x count state (unique, shared, with weak references, target dropped, dangling, None): raw round trip, borrow == convert, inc/dec by exactly one, empties <-> null, container round trip, container of Weak does not keep its target alive, distinct addresses. One recorded known finding (Option<Option<Arc>> Some(None)).",
             technique="exhaustive enumeration of a finite configuration space, each element executed on the implementation", ref="§7 C15",
             note="Trusted base: std's strong_count/weak_count observers; the element table in harness/src/seq_c15.rs. No scheduling or memory-model aspect."),
 "C16": dict(text="Sequential part: every program over {store None/a/b/c, load of a cache / its clone / a mapped cache, clone the cache} up to depth 6 (quick) / 8 (thorough) under two strategies; each load returns the current value, every strong count equals pool + container + caches holding it. Concurrent part under the engine: a cache loading while a writer stores twice; per-cache monotonicity against the write order, never-stored identities, and the happens-before clause through a release/acquire flag.",
             technique="exhaustive enumeration of operation sequences against a reference model + stateless model checking of the implementation for the concurrent clause", ref="§7 C16"),
 "C17": dict(text="Every projection chain (container as Access<Arc<T>> / Access<T>, &container, Arc<container>, Map, Map of Map, ArcSwapAny::map, Box<dyn DynAccess>, AccessConvert, Constant) x number of stores before and between the derefs of one guard: the guard keeps projecting its snapshot, the snapshot stays alive exactly as long as the guard (Weak probe), the next load projects the newest value, static and dynamic dispatch agree. Concurrent part under the engine: a writer storing while a Map guard is dereferenced.",
             technique="exhaustive enumeration of projection chains and store placements + stateless model checking for the concurrent clause", ref="§7 C17"),
 "C18": dict(text="Fault enumeration: every point where user code runs inside the library is chosen as the panic point (rcu closure on attempt 1-3 with retries forced by a competing writer under the engine; closure after creating its result; destructor of the value replaced by store; destructor of the rejected new value / by-value current guard of compare_and_swap; destructor run by the last guard; destructor of a helped reader's candidate inside load under the engine; Map projection) x guards held x strategy. Afterwards: container value legitimate, counts exact, slots empty, follow-up operations behave. Two defects found and fixed (/repo 93929e1).",
             technique="exhaustive fault-point enumeration, sequentially and inside bounded exhaustive schedule exploration of the implementation", ref="§7 C18", category="model_checking"),
 "C19": dict(text="Complete truth table of `W: Send`, `W: Sync` for 16 wrapper types x 5 pointer kinds x 4 pointee Send/Sync combinations plus DynGuard<X> over an erased guard of another pointer type (328 instantiations), evaluated as compile-time constants in one rustc run against the current sources; oracle: W Send => P Send, W Sync => P Sync (and P Send for containers), P Send+Sync => W Send+Sync.",
             technique="exhaustive enumeration of a finite space of generic instantiations; the deciding step per instance is rustc's trait resolution, not an execution", ref="§7 C19",
             note="Trusted base: rustc's auto-trait resolution; the instantiation list in /verif/typecheck/src/main.rs. This is configuration-space enumeration, not schedule exploration."),
 "C20": dict(text="Every value of a grammar {unit, bool, u8, i64, String, Option, Vec, struct} up to nesting 1 (quick) / 2 (thorough) x {ArcSwap, ArcSwapOption Some/None} x two strategies: the container's JSON equals its value's JSON, deserializing gives a container whose value equals the input with exactly one reference (plus the probing handle), round trip preserves the value; serde_test token streams for six shapes.",
             technique="exhaustive enumeration of a bounded value grammar, each value executed through the implementation", ref="§7 C20",
             note="Trusted base: serde_json / serde_test. No scheduling aspect."),
}

NOT_YET = {
 "C05": "check under construction in this round (compare_and_swap harnesses not built yet)",
 "C06": "check under construction in this round (rcu harnesses not built yet)",
 "C08": "check under construction in this round (step oracles / adversary family not built yet)",
 "C09": "check under construction in this round (solo-completion probe not registered yet)",
 "C10": "check under construction in this round",
 "C11": "check under construction in this round",
 "C12": "check under construction in this round",
 "C13": "check under construction in this round",
 "C14": "check under construction in this round",
 "C15": "check under construction in this round",
 "C16": "check under construction in this round",
 "C17": "check under construction in this round",
 "C18": "check under construction in this round",
 "C19": "check under construction in this round",
 "C20": "check under construction in this round",
}

def main():
    hooks = subprocess.run(["git", "-C", "/repo", "log", "--format=%H %s"], capture_output=True, text=True).stdout.splitlines()
    hook_commits = [l.split()[0] for l in hooks if "verif hook" in l]
    checks = []
    for pid, c in sorted(CLAIMED.items()):
        checks.append({
            "property_id": pid,
            "quick_cmd": f"./check {pid} --tier quick",
            "thorough_cmd": f"./check {pid} --tier thorough",
            "evidence_file": f"/verif/evidence/{pid}.json",
            "replay_cmd_template": "./check replay {path}",
            "engine": "arc_swap_verif_rt",
            "level_claimed": {"category": c.get("category", "model_checking"), "text": c["text"], "design_ref": "DESIGN.md " + c["ref"]},
            "level_note": c.get("note", ENGINE_NOTE),
            "technique": c["technique"],
        })
    m = {
        "version": 1,
        "setup_cmd": "./check setup",
        "hooks": {
            "guard": "--cfg arc_swap_verif",
            "enable": "out-of-tree wrapper manifest /verif/subject/Cargo.toml ([lib] path = /repo/src/lib.rs) built with RUSTFLAGS=--cfg arc_swap_verif and the path dependency arc_swap_verif_rt (/verif/rt); see /verif/build.sh",
            "baseline_off_cmd": "cd /repo && cargo test --workspace --no-fail-fast --offline",
            "source_commits": hook_commits,
            "add_only": True,
        },
        "engines": [
            {"name": "arc_swap_verif_rt", "path": "/verif/rt",
             "serves_properties": sorted(CLAIMED.keys()),
             "kind_free_text": "hand-rolled stateless model checker over the real crate: coroutine model threads, preemption-bounded DFS over choice vectors, view-based C11-style memory model with stale-read budget, race cells, engine-managed TLS"},
        ],
        "checks": checks,
        "not_applicable": [{"property_id": k, "reason": v} for k, v in sorted(NOT_YET.items()) if k not in CLAIMED],
        "notes": "All checks: exit 0 = held on everything explored (KNOWN-FINDING lines allowed), 1 = VIOLATION line, 2 = MACHINERY-ERROR. Known findings live in /verif/known_findings.json.",
    }
    json.dump(m, open("/verif/MANIFEST.json", "w"), indent=1)
    print("wrote MANIFEST.json with", len(checks), "checks,", len(m["not_applicable"]), "not_applicable")

if __name__ == "__main__":
    main()
