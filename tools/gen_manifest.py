#!/usr/bin/env python3
"""Generates /verif/MANIFEST.json from the table below (kept in one place so it stays valid)."""
import json, subprocess, sys

ENGINE_NOTE = ("Trusted base: the hand-rolled engine /verif/rt (validated by litmus, interleaving-count and replay self tests), "
               "memory model M1 of DESIGN §5 (an under-approximation of C11 for relaxed/acquire/release, SeqCst accesses as full barriers, "
               "A-cumulative releases), the cfg(arc_swap_verif) hooks, the instrumented RefCnt pointer VArc, and the stated bounds "
               "(threads, calls, preemptions, stale reads, spurious CAS failures; 2 fast slots per node in the quick tier, 2 and the shipped 8 in the thorough tier).")

CLAIMED = {
 "C01": dict(text="Bounded exhaustive exploration of the real crate: every schedule with at most P preemptions, every read-from choice with at most S stale reads and every spurious weak-CAS failure up to F, of 2-4 thread harnesses on the fast, full (all fast slots occupied) and fallback-only paths, with fresh and reused addresses. Oracle: instrumented pointees that are never really freed, so any touch after logical destruction, and any wild pointer, is reported on the execution where it happens.",
             technique="stateless model checking of the implementation (controlled scheduler + view-based weak memory model, preemption/stale-read bounded DFS)", ref="§7 C01"),
 "C02": dict(text="Same executions as C01; oracle is the exact count equation strong + occupied debt slots == containers + handles + guards at every quiescent point, and at the end every value destroyed exactly once, every slot empty, every control word idle, no writer reservation left.",
             technique="stateless model checking of the implementation; ownership-accounting invariant on every explored execution", ref="§7 C02"),
 "C03": dict(text="Recorded call/return histories of every explored execution are checked for linearizability against an atomic-cell specification (memoised Wing-Gong search); real-time order binds calls that read nothing stale, happens-before binds the others.",
             technique="stateless model checking of the implementation + brute-force linearizability check per execution", ref="§7 C03"),
 "C04": dict(text="Concurrent store/swap writers with a reader on all paths; history oracle plus the chain oracle (no value handed back more often than stored, final value is a stored one) and use of returned handles after the container was consumed.",
             technique="stateless model checking of the implementation + history/chain oracles", ref="§7 C04"),
 "C07": dict(text="The pointee payload is a race cell: written by the creator before the store, read through every kind of handle, written by the destructor. A FastTrack-style vector-clock detector over the model's happens-before relation reports any unordered pair, on every explored execution including stale reads.",
             technique="stateless model checking of the implementation with a vector-clock data-race detector on the pointee", ref="§7 C07"),

 "C05": dict(text="compare_and_swap against a reader, against an A-B-A writer (store b, store a again between the internal load and the exchange), against a second compare_and_swap, and with a current value that is not stored; spurious failures of the weak exchange are enumerated. Oracles: history linearizable with CAS semantics (replaces iff stored == current, returns the previous value), counts exact (the rejected new value is released exactly once).",
             technique="stateless model checking of the implementation + linearizability check with compare-and-swap semantics", ref="§7 C05"),
 "C06": dict(text="Two concurrent rcu increments, rcu against store / swap / reader, and a re-entrant closure (loads the same and another container, nested rcu). Oracles: final counter equals the successful updates in history order (no lost update), history linearizable with rcu as an atomic read-modify-write, every value created by a discarded attempt is dead at the end and was never returned by any load.",
             technique="stateless model checking of the implementation + history / lost-update oracles", ref="§7 C06"),
 "C08": dict(text="Adversary schedule family enumerated completely: for a reader holding 0, 1, S, S+1 guards on every path, every distribution of up to 4 complete writer calls over the gaps between the reader's own steps; plus all preemption-bounded harnesses. Oracles: absolute cap on a load's own steps, and a relational one: the maximum does not grow from 2 to 4 interfering writes (a retry loop would).",
             technique="stateless model checking of the implementation under an adversarial scheduler; per-call step counting", ref="§7 C08, §6.2"),
 "C09": dict(text="Every explored prefix of every harness is followed by a suffix in which the running thread proceeds alone while all others stay frozen where they are (mid-load, inside the read-intent window, inside a debt walk, holding guards); every store, swap, compare_and_swap, rcu, into_inner, container drop and guard drop must finish within a cap of its own steps. A spin-wait or deadlock exceeds the cap.",
             technique="stateless model checking of the implementation; solo-completion probe from every explored state with per-call step caps", ref="§7 C09, §6.2"),
 "C10": dict(text="Guards held across writes (1, S, S+1 of them), released in enumerated orders and through Guard::into_inner, guards outliving a consumed or dropped container, guards moved to another thread after their creator exited while a new thread claims the creator's node. Oracles: identity seen through each guard at every use, poison, exact counts at quiescence.",
             technique="stateless model checking of the implementation + snapshot/identity oracle", ref="§7 C10"),
 "C11": dict(text="Strictly sequential thread churn (node count must stay 1), a thread exiting while another starts while a writer walks the list, operations after thread-local teardown (temporary node path), a pointee destructor that uses a container. Oracles: node-count bounds through the introspection hook, no node owned at the end, the crate's own debug assertions, all C01-C03 oracles.",
             technique="stateless model checking of the implementation with engine-managed thread-local storage and thread exit as explored events", ref="§7 C11"),
 "C12": dict(text="A reader of container A (on every path) against writers of container B sharing the same per-thread node, optionally a writer of A, optionally one value stored in both; a variant where B has a different pointee type so that a mis-directed help or payment is a type-tag violation. Oracles: per-container linearizability, provenance of every loaded identity, exact counts.",
             technique="stateless model checking of the implementation + per-container history and provenance oracles", ref="§7 C12"),
 "C13": dict(text="Panic oracle on every engine harness (debug assertions on), plus the generation wrap-around family: the helping generation counter is preset 1 and 2 transactions before its wrap (through a hook), then fallback loads run against a helping writer, including the case where the wrap happens in the nested load a writer performs while helping. The unchanged tree violated this (fixed by /repo commit bdc6940, see known_findings.json).",
             technique="stateless model checking of the implementation with the transaction counter preset near its maximum; panic / abort oracle", ref="§7 C13, §8.1"),
}

NOT_YET = {
 "C05": "check under construction in this round (compare_and_swap harnesses not built yet)",
 "C06": "check under construction in this round (rcu harnesses not built yet)",
 "C08": "check under construction in this round (step oracles / adversary family not built yet)",
 "C09": "check under construction in this round (solo-completion probe not registered yet)",
 "C10": "check under construction in this round",
 "C11": "check under construction in this round",
 "C12": "check under construction in this round",
 "C13": "check under construction in this round",
 "C14": "check under construction in this round",
 "C15": "check under construction in this round",
 "C16": "check under construction in this round",
 "C17": "check under construction in this round",
 "C18": "check under construction in this round",
 "C19": "check under construction in this round",
 "C20": "check under construction in this round",
}

def main():
    hooks = subprocess.run(["git", "-C", "/repo", "log", "--format=%H %s"], capture_output=True, text=True).stdout.splitlines()
    hook_commits = [l.split()[0] for l in hooks if "verif hook" in l]
    checks = []
    for pid, c in sorted(CLAIMED.items()):
        checks.append({
            "property_id": pid,
            "quick_cmd": f"./check {pid} --tier quick",
            "thorough_cmd": f"./check {pid} --tier thorough",
            "evidence_file": f"/verif/evidence/{pid}.json",
            "replay_cmd_template": "./check replay {path}",
            "engine": "arc_swap_verif_rt",
            "level_claimed": {"category": c.get("category", "model_checking"), "text": c["text"], "design_ref": "DESIGN.md " + c["ref"]},
            "level_note": c.get("note", ENGINE_NOTE),
            "technique": c["technique"],
        })
    m = {
        "version": 1,
        "setup_cmd": "./check setup",
        "hooks": {
            "guard": "--cfg arc_swap_verif",
            "enable": "out-of-tree wrapper manifest /verif/subject/Cargo.toml ([lib] path = /repo/src/lib.rs) built with RUSTFLAGS=--cfg arc_swap_verif and the path dependency arc_swap_verif_rt (/verif/rt); see /verif/build.sh",
            "baseline_off_cmd": "cd /repo && cargo test --workspace --no-fail-fast --offline",
            "source_commits": hook_commits,
            "add_only": True,
        },
        "engines": [
            {"name": "arc_swap_verif_rt", "path": "/verif/rt",
             "serves_properties": sorted(CLAIMED.keys()),
             "kind_free_text": "hand-rolled stateless model checker over the real crate: coroutine model threads, preemption-bounded DFS over choice vectors, view-based C11-style memory model with stale-read budget, race cells, engine-managed TLS"},
        ],
        "checks": checks,
        "not_applicable": [{"property_id": k, "reason": v} for k, v in sorted(NOT_YET.items()) if k not in CLAIMED],
        "notes": "All checks: exit 0 = held on everything explored (KNOWN-FINDING lines allowed), 1 = VIOLATION line, 2 = MACHINERY-ERROR. Known findings live in /verif/known_findings.json.",
    }
    json.dump(m, open("/verif/MANIFEST.json", "w"), indent=1)
    print("wrote MANIFEST.json with", len(checks), "checks,", len(m["not_applicable"]), "not_applicable")

if __name__ == "__main__":
    main()
