#!/bin/bash
# Runs every claimed check (quick by default) and prints one status line per property.
cd "$(dirname "$0")/.."
TIER="${1:-quick}"
for p in $(python3 -c "import json; print(' '.join(c['property_id'] for c in json.load(open('MANIFEST.json'))['checks']))"); do
  s=$(date +%s.%N)
  ./check $p --tier $TIER >/tmp/run_all_$p.out 2>/tmp/run_all_$p.err; rc=$?
  e=$(date +%s.%N)
  printf "%s rc=%d %.1fs %s\n" $p $rc $(echo "$e - $s" | bc) "$(grep -E 'VIOLATION|KNOWN|MACHINERY' /tmp/run_all_$p.out | head -3 | tr '\n' ' ' | cut -c1-200)"
done
python3-vt - <<'PY'
import json,jsonschema,glob
sch=json.load(open('/root/.vp/EVIDENCE.schema.json'))
m=json.load(open('/verif/MANIFEST.json'))
jsonschema.validate(m,json.load(open('/root/.vp/MANIFEST.schema.json')))
for c in m['checks']:
    try:
        ev=json.load(open(c['evidence_file'])); jsonschema.validate(ev,sch)
        cov=ev['coverage']
        print(c['property_id'],'evidence ok tier',ev['tier'],'execs',cov.get('evaluations'),'distinct',cov.get('distinct_nontrivial'),'exhaustive',cov.get('exhaustive'),'wall',round(ev['wall_s'],1))
    except Exception as e:
        print(c['property_id'],'EVIDENCE PROBLEM',str(e)[:200])
PY
