#!/bin/bash
# Runs checks against a MUTATED copy of the crate without touching /repo or the main build:
#   tools/mutcheck.sh <patch.diff> [--tier quick|thorough] <Cxx> [<Cxx> ...]
# A scratch worktree of /repo HEAD gets the patch; a copy of the /verif sources whose wrapper
# manifests point at that worktree is built into its own target directory.
set -u
PATCH=$(readlink -f "$1"); shift
TIER=quick
if [ "${1:-}" = "--tier" ]; then TIER=$2; shift 2; fi
# --bin-only <out>: just build the mutated small binary and copy it to <out>
BINONLY=
if [ "${1:-}" = "--bin-only" ]; then BINONLY=$2; shift 2; fi
ID=$$
WT=/tmp/mut_wt_$ID; WS=/tmp/mut_ws_$ID; TG=${MUT_TG:-/tmp/mut_tg}
cleanup() { git -C /repo worktree remove --force $WT 2>/dev/null; rm -rf $WT $WS /tmp/mut_ev_$ID /tmp/vh_mutrel_$ID; }
trap cleanup EXIT
git -C /repo worktree add -q --detach $WT HEAD || exit 2
(cd $WT && git apply "$PATCH") || { echo "patch does not apply"; exit 9; }
mkdir -p $WS && cp -r /verif/rt /verif/harness /verif/subject /verif/typecheck $WS/
sed -i "s#/repo/src/lib.rs#$WT/src/lib.rs#" $WS/subject/Cargo.toml
sed -i "s#path = \"/repo\"#path = \"$WT\"#" $WS/typecheck/Cargo.toml
export RUSTFLAGS="--cfg arc_swap_verif" CARGO_NET_OFFLINE=true
(cd $WS/harness && CARGO_TARGET_DIR=$TG/small cargo build --release --offline --features small 2>&1 | grep -E "^error" -A8)
if [ -n "$BINONLY" ]; then cp $TG/small/release/vh $BINONLY; exit 0; fi
SHIP=()
case " $* " in *" C02 "*|*" C05 "*|*" C10 "*|*" C14 "*)
  (cd $WS/harness && CARGO_PROFILE_RELEASE_DEBUG_ASSERTIONS=false CARGO_PROFILE_RELEASE_OVERFLOW_CHECKS=false CARGO_TARGET_DIR=$TG/rel cargo build --release --offline --features small 2>&1 | grep -E "^error" -A8)
  cp $TG/rel/release/vh /tmp/vh_mutrel_$ID; SHIP+=(--rel-bin /tmp/vh_mutrel_$ID) ;;
esac
if [ "$TIER" = thorough ]; then (cd $WS/harness && CARGO_TARGET_DIR=$TG/ship cargo build --release --offline 2>&1 | grep -E "^error" -A8); SHIP=(--ship-bin $TG/ship/release/vh); fi
for P in "$@"; do
  EXTRA=()
  if [ "$P" = C19 ]; then
    cp -f $WT/Cargo.lock $WS/typecheck/Cargo.lock
    (cd $WS/typecheck && unset RUSTFLAGS && CARGO_TARGET_DIR=$TG/typecheck cargo build --release --offline 2>&1 | grep -E "^error" -A8)
    $TG/typecheck/release/typecheck > /tmp/mut_ev_$ID.tsv 2>/dev/null
    EXTRA=(--c19-table /tmp/mut_ev_$ID.tsv)
  fi
  # a private copy of the binary so that a later rebuild cannot disturb this run
  cp $TG/small/release/vh /tmp/vh_mut_$ID
  /tmp/vh_mut_$ID prop $P --tier $TIER "${SHIP[@]}" "${EXTRA[@]}" --evidence-dir /tmp/mut_ev_$ID --replay-dir /tmp/mut_replays 2>/dev/null | grep -E "VIOLATION|MACHINERY|instance=|case:|^  [A-Za-z\[]" | grep -v KNOWN | cut -c1-300 | head -8
  echo "  -> $P exit=${PIPESTATUS[0]}"
  rm -f /tmp/vh_mut_$ID
done
