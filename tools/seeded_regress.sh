#!/bin/bash
# Runs, for every seeded change, the quick check of the property it breaks (plus the checks named
# in EXTRA below) against a mutated scratch copy (tools/mutcheck.sh) and writes one line per
# (seed, check) to seeded/REGRESSION.txt: exit 1 = detected, 0 = missed, 2 = machinery error.
# usage: tools/seeded_regress.sh [seed ids...]
cd /verif
declare -A EXTRA=(
  [C01-3]="C02 C12" [C01-4]="C02" [C02-3]="C01" [C03-3]="C12" [C03-4]="C11" [C06-2]="C05 C01"
  [C09-3]="C10" [C10-2]="C13" [C10-3]="C11 C13" [C10-4]="C13" [C12-3]="C01 C02 C03" [C12-4]="C11 C03"
  [C11-1]="C03" [C04-1]="C07" [C03-2]="C12" [C12-1]="C03" [C01-1]="C02" [C02-1]="C01"
  [C04-3]="C01 C02" [C05-3]="C11 C03" [C06-3]="C11 C01" [C07-4]="C01" [C08-3]="C10" [C08-4]="C09" [C11-3]="C03"
  [C15-4]="C01 C02" [C18-3]="C01" [C18-4]="C02"
  [C13-4]="C11 C03" [C17-3]="C10 C01 C11" [C17-4]="C10 C01" [C20-3]="C02" [C20-4]="C07"
  [C02-5]="C01 C11" [C02-6]="C14" [C09-5]="C03" [C09-6]="C08"
  [C05-1]="C04" [C06-1]="C04" [C04-2]="C05 C06" [C01-2]="C10 C17" [C10-1]="C01" [C17-2]="C01"
)
OUT=seeded/REGRESSION.txt
# LANES=n runs n seeds at a time (each lane has its own cargo target directory)
if [ -n "${LANES:-}" ] && [ -z "${LANE:-}" ]; then
  IDS=("$@"); if [ ${#IDS[@]} -eq 0 ]; then IDS=($(ls seeded | grep -E '^C[0-9]+-[0-9]+$')); : > $OUT; fi
  printf '%s\n' "${IDS[@]}" | xargs -P "$LANES" -I{} env LANE=1 "$0" {}
  sort -o $OUT $OUT
  exit 0
fi
IDS=("$@"); if [ ${#IDS[@]} -eq 0 ]; then IDS=($(ls seeded | grep -E '^C[0-9]+-[0-9]+$')); : > $OUT; fi
if [ -n "${LANE:-}" ]; then
  for n in 1 2 3 4 5 6 7 8; do if mkdir /tmp/mut_lane_$n.lock 2>/dev/null; then export MUT_TG=/tmp/mut_tg_lane$n; trap "rmdir /tmp/mut_lane_$n.lock" EXIT; break; fi; done
fi
for id in "${IDS[@]}"; do
  p=${id%%-*}
  res=$(timeout 5400 ./tools/mutcheck.sh seeded/$id/patch.diff $p ${EXTRA[$id]:-} 2>&1)
  # this run replaces earlier lines of the same seed (one writer at a time)
  new=$(echo "$res" | grep -E "^  -> " | while read -r _ c e; do
    inst=""
    if [ "$e" != "exit=0" ]; then
      inst=$(echo "$res" | grep -B40 -- "-> $c $e" | grep -E "instance=" | tail -1 | sed -E 's/^ *instance=([^ ]+).*oracle=([a-z-]+).*/\1 [\2]/')
    fi
    echo "$id $c $e ${inst}"
  done)
  ( flock 9; grep -v "^$id " $OUT > $OUT.tmp.$$; echo "$new" >> $OUT.tmp.$$; mv $OUT.tmp.$$ $OUT ) 9>/tmp/regress.lock
  echo "$new"
done
