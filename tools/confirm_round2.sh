#!/bin/bash
# Confirms one round-2 seeded change in a scratch worktree of /repo HEAD:
#  (1) the repository's suite passes with patch.diff, (2) the demonstration passes without the
#  change, (3) it fails with it. The demonstrations of this round are partly in-crate unit tests
#  that need demo-only yield points (separate diffs, never part of patch.diff); the recipe per seed
#  is below. The seed's files are laid out as SEEDED/changeN/ in the worktree because some hook
#  diffs mount the demo through a #[path] attribute relative to src/.
# usage: confirm_round2.sh <seed id, e.g. C01-3>
set -u
ID=$1; D=/verif/seeded/$ID
WT=/tmp/wt_confirm_$ID
export CARGO_NET_OFFLINE=true CARGO_TARGET_DIR=/tmp/tgt_confirm_$ID
git -C /repo worktree remove --force $WT 2>/dev/null; rm -rf $WT
git -C /repo worktree add -q --detach $WT HEAD || exit 2
cd $WT
N=$(jq -r .agent_change_dir $D/meta.json 2>/dev/null); [ -z "$N" -o "$N" = null ] && N=change1
mkdir -p SEEDED/$N && cp $D/* SEEDED/$N/
S=SEEDED/$N
res() { echo "RESULT $ID $1"; }
clean() { git checkout -q -- src tests 2>/dev/null; git clean -fdq src tests; }
T() { timeout 1500 "$@" >/tmp/confirm_demo_$ID.log 2>&1; }
git apply $S/patch.diff || { res "patch-does-not-apply"; exit 1; }
timeout 1800 cargo test --workspace --no-fail-fast --offline >/tmp/confirm_suite_$ID.log 2>&1; s1=$?
passed=$(grep -E "^test result" /tmp/confirm_suite_$ID.log | awk '{s+=$4} END{print s}')
failed=$(grep -E "^test result" /tmp/confirm_suite_$ID.log | awk '{s+=$6} END{print s}')
res "suite-with-patch rc=$s1 passed=$passed failed=$failed"
clean
case $ID in
  C01-3)
    git apply $S/hooks.diff && cp $S/demo.rs src/seed_demo.rs; T cargo test --offline --lib seed_demo; without=$?
    clean; git apply $S/hooks_and_change.diff && cp $S/demo.rs src/seed_demo.rs; T cargo test --offline --lib seed_demo; with=$? ;;
  C01-4)
    cp $S/demo.rs tests/seed_demo.rs; T cargo test --offline --test seed_demo; without=$?
    git apply $S/patch.diff; T cargo test --offline --test seed_demo; with=$? ;;
  C03-3)
    git apply $S/demo_hooks_on_clean.diff; T cargo test --offline --lib demo_c03_change1; without=$?
    clean; git apply $S/patch.diff && git apply $S/demo_hooks_on_changed.diff; T cargo test --offline --lib demo_c03_change1; with=$? ;;
  C03-4)
    git apply $S/demo_hooks.diff; T cargo test --offline --lib demo_c03_change2; without=$?
    clean; git apply $S/patch.diff && git apply $S/demo_hooks.diff; T cargo test --offline --lib demo_c03_change2; with=$? ;;
  C09-3)
    cp $S/demo.rs tests/seed_demo.rs; T cargo test --offline --test seed_demo; without=$?
    git apply $S/patch.diff; T cargo test --offline --test seed_demo; with=$? ;;
  C09-4)
    echo "#[cfg(test)] #[path = \"../$S/demo.rs\"] mod c09_demo2;" >> src/lib.rs; T cargo test --offline --lib c09_demo2; without=$?
    git apply $S/patch.diff; T cargo test --offline --lib c09_demo2; with=$? ;;
  C02-3|C02-4)
    git apply $S/hooks.diff; cp $S/demo.rs src/seeded_demo.rs; T cargo test --offline --lib seeded_demo; without=$?
    clean; git apply $S/patch.diff && git apply $S/hooks.diff; cp $S/demo.rs src/seeded_demo.rs; T cargo test --offline --lib seeded_demo; with=$? ;;
  C10-3|C12-3|C12-4)
    H=hooks.diff; [ -f $S/demo_hooks.diff ] && H=demo_hooks.diff
    git apply $S/$H; T cargo test --offline --lib seeded_demo; without=$?
    clean; git apply $S/patch.diff && git apply $S/$H; T cargo test --offline --lib seeded_demo; with=$? ;;
  C10-4)
    cp $S/demo.rs tests/seed_demo.rs
    MIRIFLAGS="-Zmiri-ignore-leaks -Zmiri-many-seeds=0..32" T cargo +nightly miri test --offline --test seed_demo; without=$?
    git apply $S/patch.diff
    MIRIFLAGS="-Zmiri-ignore-leaks -Zmiri-many-seeds=0..32" T cargo +nightly miri test --offline --test seed_demo; with=$? ;;
  C08-3)
    cp $S/demo.rs tests/seed_demo.rs; T cargo test --offline --test seed_demo; without=$?
    git apply $S/patch.diff; T cargo test --offline --test seed_demo; with=$? ;;
  C08-4)
    git apply $S/demo_tests.diff; T cargo test --offline --lib c08_; without=$?
    clean; git apply $S/patch.diff && git apply $S/demo_tests.diff; T cargo test --offline --lib c08_; with=$? ;;
  C11-3)
    git apply $S/demo_hooks_on_head.diff; cp $S/demo.rs src/debt/demo_c11_change1.rs; T cargo test --offline --lib demo_c11_change1 -- --test-threads=1; without=$?
    clean; git apply $S/patch.diff && git apply $S/demo_hooks_on_change1.diff; cp $S/demo.rs src/debt/demo_c11_change1.rs; T cargo test --offline --lib demo_c11_change1 -- --test-threads=1; with=$? ;;
  C04-3)
    git apply $S/hooks_on_clean.diff; cp $S/demo.rs src/seeded_demo.rs; T cargo test --offline --lib seeded_demo; without=$?
    clean; git apply $S/patch.diff && git apply $S/hooks_on_change1.diff; cp $S/demo.rs src/seeded_demo.rs; T cargo test --offline --lib seeded_demo; with=$? ;;
  C05-3)
    python3 $S/apply_demo_hooks.py $S; T cargo test --offline --lib seeded_demo -- --test-threads=1; without=$?
    clean; rm -f src/seeded_hook.rs src/seeded_demo.rs; git apply $S/patch.diff && python3 $S/apply_demo_hooks.py $S; T cargo test --offline --lib seeded_demo -- --test-threads=1; with=$? ;;
  C06-3)
    # not executable on x86: the demonstration is the written execution in demo.md; the hook
    # stands in for the stale read of the list head (STALE_HEAD=1)
    git apply $S/demo_hook.diff; cp $S/demo.rs tests/seed_demo.rs; RUSTFLAGS="--cfg seeded_demo" T cargo test --offline --test seed_demo; without=$?
    git apply $S/patch.diff; STALE_HEAD=1 RUSTFLAGS="--cfg seeded_demo" T cargo test --offline --test seed_demo; with=$? ;;
  C07-3)
    mkdir -p SEEDED/demo_crate && cp -r /verif/seeded/C07-3/demo_crate/* SEEDED/demo_crate/
    (cd SEEDED/demo_crate && MIRIFLAGS="-Zmiri-disable-weak-memory-emulation" T cargo +nightly miri run --offline --bin demo1); without=$?
    git apply $S/patch.diff
    (cd SEEDED/demo_crate && MIRIFLAGS="-Zmiri-disable-weak-memory-emulation" T cargo +nightly miri run --offline --bin demo1); with=$? ;;
  C07-4)
    mkdir -p SEEDED/demo_crate && cp -r /verif/seeded/C07-3/demo_crate/* SEEDED/demo_crate/
    git apply $S/demo_hook.diff
    (cd SEEDED/demo_crate && RUSTFLAGS="--cfg arc_swap_demo_hook" MIRIFLAGS="-Zmiri-disable-weak-memory-emulation" T cargo +nightly miri run --offline --bin demo2); without=$?
    git apply $S/patch.diff
    (cd SEEDED/demo_crate && RUSTFLAGS="--cfg arc_swap_demo_hook" MIRIFLAGS="-Zmiri-disable-weak-memory-emulation" T cargo +nightly miri run --offline --bin demo2); with=$? ;;
  C15-3)
    cp $S/demo.rs tests/seed_demo.rs; T cargo test --offline --features weak --test seed_demo; without=$?
    git apply $S/patch.diff; T cargo test --offline --features weak --test seed_demo; with=$? ;;
  C15-4)
    cp $S/demo.rs src/seeded_demo.rs; git apply $S/hooks.diff; T cargo test --offline --lib seeded_demo; without=$?
    git apply $S/patch.diff; T cargo test --offline --lib seeded_demo; with=$? ;;
  C18-3)
    git apply $S/demo_hooks.diff; cp $S/demo.rs src/c18_demo.rs; T cargo test --offline --lib c18_change1; without=$?
    git apply $S/patch.diff; T cargo test --offline --lib c18_change1; with=$? ;;
  C18-4)
    git apply $S/demo_hooks.diff; cp $S/demo.rs src/c18_demo.rs; T cargo test --offline --lib c18_change2; without=$?
    clean; git apply $S/patch.diff && git apply $S/demo_hooks.diff; cp $S/demo.rs src/c18_demo.rs; T cargo test --offline --lib c18_change2; with=$? ;;
  C13-3|C13-4)
    mkdir -p SEEDED/change1 SEEDED/change2; cp /verif/seeded/C13-3/demo.rs SEEDED/change1/; cp /verif/seeded/C13-4/demo.rs SEEDED/change2/
    git apply $S/demo_hooks.diff; T cargo test --offline --lib seeded_demo; without=$?
    git apply $S/patch.diff; T cargo test --offline --lib seeded_demo; with=$? ;;
  C17-3|C17-4)
    N17=1; [ $ID = C17-4 ] && N17=2
    python3 $S/demo_apply.py; T cargo test --offline --lib seed_c17_$N17 -- --test-threads=1; without=$?
    clean; git apply $S/patch.diff && python3 $S/demo_apply.py; T cargo test --offline --lib seed_c17_$N17 -- --test-threads=1; with=$? ;;
  C20-3)
    cp $S/demo.rs tests/seed_demo.rs; T cargo test --offline --features serde --test seed_demo; without=$?
    git apply $S/patch.diff; T cargo test --offline --features serde --test seed_demo; with=$? ;;
  C20-4)
    cp $S/demo.rs tests/seed_demo.rs
    MIRIFLAGS="-Zmiri-ignore-leaks -Zmiri-many-seeds=0..6" T cargo +nightly miri test --offline --features serde,internal-test-strategies --test seed_demo; without=$?
    git apply $S/patch.diff
    MIRIFLAGS="-Zmiri-ignore-leaks -Zmiri-many-seeds=0..6" T cargo +nightly miri test --offline --features serde,internal-test-strategies --test seed_demo; with=$? ;;
  C02-5)
    git apply $S/demo_hooks.diff; cp $S/demo.rs tests/seed_demo.rs; T cargo test --offline --test seed_demo; without=$?
    git apply $S/patch.diff; T cargo test --offline --test seed_demo; with=$? ;;
  C09-5)
    git apply $S/hook.diff; T cargo test --offline --lib seeded_demo; without=$?
    git apply $S/patch.diff; T cargo test --offline --lib seeded_demo; with=$? ;;
  C07-5)
    cp $S/demo.rs tests/seed_demo.rs; T cargo test --offline --features weak,internal-test-strategies --test seed_demo; without=$?
    git apply $S/patch.diff; T cargo test --offline --features weak,internal-test-strategies --test seed_demo; with=$? ;;
  C07-6)
    # the demonstration is a written execution (demo.md): only the suite is run here
    without=0; with=1 ;;
  *)
    # generic: integration test, no hooks
    cp $S/demo.rs tests/seed_demo.rs; T cargo test --offline --test seed_demo; without=$?
    git apply $S/patch.diff; T cargo test --offline --test seed_demo; with=$? ;;
esac
grep -E "panicked|assert|FAILED|test result" /tmp/confirm_demo_$ID.log | head -6 | tr '\n' '|' | cut -c1-700; echo
res "demo without-change rc=$without (expect 0); with-change rc=$with (expect !=0)"
cd /; git -C /repo worktree remove --force $WT; rm -rf $WT $CARGO_TARGET_DIR
