#!/bin/bash
# Confirms one seeded change in a scratch worktree: (1) suite passes with the patch,
# (2) the demonstration fails with the patch, (3) the demonstration passes without it.
# usage: confirm_seeded.sh <seeded dir> <mode> [extra]
#   mode: native | release | miri:<MIRIFLAGS> | hook:<cfg>:<hook-only.diff>[:<hook+change.diff>]
set -u
D=$(readlink -f "$1"); MODE="${2:-native}"
FEAT=()
if [ -n "${FEATURES:-}" ]; then FEAT=(--features "$FEATURES"); fi
WT=/tmp/wt_confirm_$(basename $D)
export CARGO_NET_OFFLINE=true
git -C /repo worktree remove --force $WT 2>/dev/null; rm -rf $WT
git -C /repo worktree add -q --detach $WT HEAD || exit 2
cd $WT
export CARGO_TARGET_DIR=/tmp/tgt_confirm_$(basename $D)
res() { echo "RESULT $(basename $D) $1"; }
run_demo() { # returns exit code of demo run
  case "$MODE" in
    native) timeout 600 cargo test --offline "${FEAT[@]}" --test seeded_demo -- --test-threads=1 >/tmp/confirm_demo.log 2>&1 ;;
    release) timeout 900 cargo test --offline --release "${FEAT[@]}" --test seeded_demo -- --test-threads=1 >/tmp/confirm_demo.log 2>&1 ;;
    miri:*) MIRIFLAGS="${MODE#miri:}" timeout 1800 cargo +nightly miri test --offline "${FEAT[@]}" --test seeded_demo >/tmp/confirm_demo.log 2>&1 ;;
    hook:*) IFS=: read -r _ CFG _ _ <<<"$MODE"; RUSTFLAGS="--cfg $CFG" timeout 900 cargo test --offline "${FEAT[@]}" --test seeded_demo -- --test-threads=1 >/tmp/confirm_demo.log 2>&1 ;;
  esac
}
# 1. suite with the patch
git apply $D/patch.diff || { res "patch-does-not-apply"; exit 1; }
timeout 1200 cargo test --workspace --no-fail-fast --offline >/tmp/confirm_suite.log 2>&1; s1=$?
passed=$(grep -E "^test result" /tmp/confirm_suite.log | awk '{s+=$4} END{print s}')
failed=$(grep -E "^test result" /tmp/confirm_suite.log | awk '{s+=$6} END{print s}')
res "suite-with-patch rc=$s1 passed=$passed failed=$failed"
git checkout -q -- src
# 2./3. the demonstration
cp $D/demo.rs tests/seeded_demo.rs
case "$MODE" in
  hook:*)
    IFS=: read -r _ CFG HOOKONLY HOOKPLUS <<<"$MODE"
    git apply $D/$HOOKONLY || { res "hook-does-not-apply"; exit 1; }
    run_demo; without=$?
    if [ -n "${HOOKPLUS:-}" ]; then git checkout -q -- src; git apply $D/$HOOKPLUS || { res "hook+change-does-not-apply"; exit 1; }
    else git apply $D/patch.diff || { res "patch-on-hook-does-not-apply"; exit 1; }; fi
    run_demo; with=$? ;;
  *)
    run_demo; without=$?
    git apply $D/patch.diff
    run_demo; with=$? ;;
esac
tail -5 /tmp/confirm_demo.log | tr '\n' '|' | cut -c1-600
echo
res "demo without-change rc=$without (expect 0); with-change rc=$with (expect !=0)"
cd /; git -C /repo worktree remove --force $WT; rm -rf $CARGO_TARGET_DIR
