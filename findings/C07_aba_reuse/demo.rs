//! Demonstration: ABA through address reuse on the helping (fallback) path of the hybrid strategy.
//!
//! HOW TO RUN
//!
//!   1. apply CONFIRM/hooks.diff (test-only yield points, `#[cfg(test)]` only) to the worktree,
//!   2. copy this file to src/aba_demo.rs (hooks.diff already adds `#[cfg(test)] mod aba_demo;`),
//!   3. natively:   cargo test --offline --lib aba_demo -- --nocapture
//!      under Miri: MIRIFLAGS="-Zmiri-ignore-leaks -Zmiri-address-reuse-rate=1.0 \
//!                  -Zmiri-address-reuse-cross-thread-rate=1.0 -Zmiri-many-seeds=0..16" \
//!                  cargo +nightly miri test --offline --lib aba_demo -- --nocapture
//!      (add -Zmiri-disable-weak-memory-emulation for the run without weak memory emulation).
//!
//! THE FORCED SCHEDULE (W = the test's main thread, R = a spawned reader)
//!
//!   R  takes 8 guards of an unrelated ArcSwap (all fast slots busy), then `shared.load()`:
//!      -> `HybridProtection::fallback`: new_helping (generation in the control word),
//!         candidate = storage.load() = P (address of V1); parks at hook
//!         "fallback:after_candidate_load"                                            [stage 1]
//!   W  `shared.swap(V2)`: helps R (replacement V2 handed over through R's control word), R's
//!      helping slot is still empty, nothing paid. Drops V1 (freed).
//!      `V3 = Arc::new(..)`; asserts that V3 got the address P; `shared.store(V3)`.   [stage 2]
//!   R  resumes into `confirm`: helping slot := P; parks at hook
//!      "confirm:after_slot_store" (before `control.swap(IDLE)`)                      [stage 3]
//!   W  `shared.store(V4)`: pay_all(P) finds P in R's helping slot and pays it (one strong
//!      count of V3 is given to the slot). W drops its V3.                            [stage 4]
//!   R  resumes: control.swap(IDLE) returns the replacement (V2) -> Err arm ->
//!      `unused_debt.pay(candidate)` fails (slot is NONE; read with Relaxed) ->
//!      `T::dec(candidate)`: a fetch_sub on the strong count of V3 - an object whose
//!      (non-atomic) initialisation in `Arc::new` on W does not happen-before anything in R.
//!
//! SYNCHRONISATION OF THE TEST ITSELF
//!
//!   Only `stage: AtomicUsize` with Ordering::Relaxed loads/stores plus `thread::yield_now()`
//!   spinning (and further Relaxed flags for reporting). No SeqCst/Acquire/Release, no Mutex, no
//!   channel between the spawn and the join of R, so the harness adds no happens-before edge
//!   from W's `Arc::new(V3)` to R. (The spawn itself is before V3 exists.)

use std::sync::atomic::{AtomicUsize, Ordering::Relaxed};
use std::sync::Arc;
use std::thread;
use std::vec::Vec;

use crate::{test_hooks, ArcSwap};

/// id * 10 + (1 if dropped on the reader thread), of the last Payload dropped with id == 3.
static V3_DROP: AtomicUsize = AtomicUsize::new(0);

thread_local! {
    static IS_READER: std::cell::Cell<bool> = std::cell::Cell::new(false);
}

struct Payload {
    id: usize,
    // Some plain (non-atomic) data, so the layout is not tiny.
    pad: [usize; 3],
}

impl Payload {
    fn new(id: usize) -> Arc<Self> {
        Arc::new(Payload {
            id,
            pad: [id; 3],
        })
    }
}

impl Drop for Payload {
    fn drop(&mut self) {
        // plain reads of the pointee
        assert_eq!(self.pad, [self.id; 3]);
        if self.id == 3 {
            let reader = IS_READER.try_with(|r| r.get()).unwrap_or(false);
            V3_DROP.store(30 + reader as usize, Relaxed);
        }
    }
}

const ABORT: usize = 100;

fn wait_for(stage: &AtomicUsize, at_least: usize) {
    let mut spins = 0u64;
    while stage.load(Relaxed) < at_least {
        thread::yield_now();
        spins += 1;
        assert!(spins < 50_000_000, "stuck waiting for stage {}", at_least);
    }
}

/// One attempt. Returns true if the address was reused (and so the whole schedule was run).
fn attempt(launder: bool) -> bool {
    let stage = Arc::new(AtomicUsize::new(0));
    let pay_failed = Arc::new(AtomicUsize::new(0));

    let v1 = Payload::new(1);
    let p = Arc::as_ptr(&v1) as usize;
    let shared = Arc::new(ArcSwap::new(v1));

    let reader = {
        let stage = Arc::clone(&stage);
        let pay_failed = Arc::clone(&pay_failed);
        let shared = Arc::clone(&shared);
        thread::spawn(move || {
            IS_READER.with(|r| r.set(true));
            test_hooks::set_launder(launder);
            // Occupy all the fast slots of this thread with debts of another ArcSwap.
            let other = ArcSwap::from_pointee(0usize);
            let guards: Vec<_> = (0..8).map(|_| other.load()).collect();

            let hook_stage = Arc::clone(&stage);
            test_hooks::set(move |place| match place {
                "fallback:after_candidate_load" => {
                    hook_stage.store(1, Relaxed);
                    wait_for(&hook_stage, 2);
                }
                "confirm:after_slot_store" => {
                    if hook_stage.load(Relaxed) < ABORT {
                        hook_stage.store(3, Relaxed);
                    }
                    wait_for(&hook_stage, 4);
                }
                "fallback:pay_failed_before_dec" => {
                    pay_failed.store(1, Relaxed);
                }
                _ => (),
            });
            let guard = shared.load();
            test_hooks::clear();
            let id = guard.id;
            drop(guard);
            drop(guards);
            id
        })
    };

    // R is parked with candidate == P, generation published.
    wait_for(&stage, 1);

    // Step 2: replace V1, help R, free V1.
    let old = shared.swap(Payload::new(2));
    assert_eq!(Arc::as_ptr(&old) as usize, p);
    assert_eq!(Arc::strong_count(&old), 1, "V1 must be freed by the drop below");
    drop(old);

    // Step 3: a new Arc of the same layout; does it land on P?
    let v3 = Payload::new(3);
    let reused = Arc::as_ptr(&v3) as usize == p;
    if !reused {
        // Let R run through (it ends up with the replacement V2 and pays its own unused debt).
        stage.store(ABORT, Relaxed);
        let id = reader.join().unwrap();
        assert_eq!(id, 2);
        return false;
    }
    shared.store(v3);
    stage.store(2, Relaxed);

    // Step 4: R puts P into its helping slot and parks before control.swap(IDLE).
    wait_for(&stage, 3);

    // Step 5: swap V3 out; pay_all(P) pays R's helping slot with a strong count of V3.
    shared.store(Payload::new(4));
    stage.store(4, Relaxed);

    // Step 6 happens in R.
    let id = reader.join().unwrap();
    assert_eq!(id, 2, "R must have got the replacement of step 2");
    assert_eq!(
        pay_failed.load(Relaxed),
        1,
        "R's pay of the unused debt must have failed (prepaid by W on V3)"
    );
    assert_eq!(
        V3_DROP.load(Relaxed),
        31,
        "the last strong count of V3 must have been released by R's T::dec(candidate)"
    );
    assert_eq!(shared.load().id, 4);
    true
}

fn run(launder: bool) {
    const ATTEMPTS: usize = if cfg!(miri) { 4 } else { 200 };
    let mut reused = 0;
    for _ in 0..ATTEMPTS {
        if attempt(launder) {
            reused += 1;
        }
    }
    std::println!(
        "aba_demo(launder={}): address reused (full schedule executed) in {} of {} attempts",
        launder,
        reused,
        ATTEMPTS
    );
    assert!(reused > 0, "the allocator never reused the address");
}

/// The code as it is (plus yield points).
#[test]
fn aba_address_reuse_on_helping_path() {
    run(false);
}

/// The same, but R's `candidate` is round-tripped through `usize` right after it was loaded
/// (test-only, see `test_hooks::launder`). Under Miri the unlaundered variant already stops at a
/// provenance violation (`candidate` carries the provenance of the freed V1 and is used on V3);
/// this variant lets Miri continue to the memory-ordering question.
#[test]
fn aba_address_reuse_on_helping_path_laundered() {
    run(true);
}
