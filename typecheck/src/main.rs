#![allow(deprecated, dead_code)]
use std::cell::Cell;
use std::marker::PhantomData;
use std::rc::Rc;
use std::sync::{Arc, MutexGuard, RwLock, Weak};

use arc_swap::access::{AccessConvert, DynAccess, DynGuard, Map, MapGuard};
use arc_swap::cache::{Cache, MapCache};
use arc_swap::strategy::test_strategies::FillFastSlots;
use arc_swap::{ArcSwapAny, DefaultStrategy, Guard};

// `<Is<T>>::SEND` is the inherent constant (true) when T: Send, otherwise the trait default (false).
struct Is<T: ?Sized>(PhantomData<T>);
trait Fallback {
    const SEND: bool = false;
    const SYNC: bool = false;
}
impl<T: ?Sized> Fallback for Is<T> {}
struct IsSend<T: ?Sized>(PhantomData<T>);
struct IsSync<T: ?Sized>(PhantomData<T>);
trait NoSend {
    const V: bool = false;
}
trait NoSync {
    const V: bool = false;
}
impl<T: ?Sized> NoSend for IsSend<T> {}
impl<T: ?Sized> NoSync for IsSync<T> {}
impl<T: ?Sized + Send> IsSend<T> {
    const V: bool = true;
}
impl<T: ?Sized + Sync> IsSync<T> {
    const V: bool = true;
}

// Pointees with the four Send/Sync combinations.
type PSS = u32; // Send + Sync
type PSn = Cell<u32>; // Send, !Sync
struct PnS(PhantomData<MutexGuard<'static, u32>>); // !Send, Sync
type Pnn = Rc<u32>; // !Send, !Sync

macro_rules! row {
    ($wname:expr, $w:ty, $pname:expr, $p:ty) => {
        println!(
            "{}\t{}\t{}\t{}\t{}\t{}",
            $wname,
            $pname,
            <IsSend<$w>>::V,
            <IsSync<$w>>::V,
            <IsSend<$p>>::V,
            <IsSync<$p>>::V
        );
    };
}

macro_rules! wrappers {
    ($pname:expr, $p:ty) => {
        row!("ArcSwapAny<P,Default>", ArcSwapAny<$p, DefaultStrategy>, $pname, $p);
        row!("ArcSwapAny<P,FillFastSlots>", ArcSwapAny<$p, FillFastSlots>, $pname, $p);
        row!("ArcSwapAny<P,RwLock>", ArcSwapAny<$p, RwLock<()>>, $pname, $p);
        row!("Guard<P,Default>", Guard<$p, DefaultStrategy>, $pname, $p);
        row!("Guard<P,FillFastSlots>", Guard<$p, FillFastSlots>, $pname, $p);
        row!("Guard<P,RwLock>", Guard<$p, RwLock<()>>, $pname, $p);
        row!("Cache<&ArcSwapAny,P>", Cache<&'static ArcSwapAny<$p>, $p>, $pname, $p);
        row!("Cache<Arc<ArcSwapAny>,P>", Cache<Arc<ArcSwapAny<$p>>, $p>, $pname, $p);
        row!("MapCache<Arc<ArcSwapAny>,P,fn>", MapCache<Arc<ArcSwapAny<$p>>, $p, fn(&$p) -> &$p>, $pname, $p);
        row!("Map<Arc<ArcSwapAny>,P,fn>", Map<Arc<ArcSwapAny<$p>>, $p, fn(&$p) -> &$p>, $pname, $p);
        row!("Map<&ArcSwapAny,P,fn>", Map<&'static ArcSwapAny<$p>, $p, fn(&$p) -> &$p>, $pname, $p);
        row!("MapGuard<Guard<P>,fn,P,P>", MapGuard<Guard<$p>, fn(&$p) -> &$p, $p, $p>, $pname, $p);
        row!("DynGuard<P>", DynGuard<$p>, $pname, $p);
        // The guard behind a DynGuard is erased: a `DynGuard<u32>` may come from a projection
        // (`Map<_, P, fn(&P) -> &u32>` behind `dyn DynAccess<u32>`) and then owns a guard of P.
        row!("DynGuard<u32> (erased guard of P behind a projection)", DynGuard<u32>, $pname, $p);
        row!("AccessConvert<Box<dyn DynAccess<P>>>", AccessConvert<Box<dyn DynAccess<$p>>>, $pname, $p);
        row!("AccessConvert<Box<dyn DynAccess<P>+Send+Sync>>", AccessConvert<Box<dyn DynAccess<$p> + Send + Sync>>, $pname, $p);
    };
}

macro_rules! kinds {
    ($xname:expr, $x:ty) => {
        // `ArcSwapAny<Arc<X>>: Access<X>`, so `dyn DynAccess<X>` hands out `DynGuard<X>` owning a guard of Arc<X> / Rc<X>
        row!("DynGuard<X> (erased guard of P, X its pointee)", DynGuard<$x>, concat!("Arc<", $xname, ">"), Arc<$x>);
        row!("DynGuard<X> (erased guard of P, X its pointee)", DynGuard<$x>, concat!("Rc<", $xname, ">"), Rc<$x>);
        wrappers!(concat!("Arc<", $xname, ">"), Arc<$x>);
        wrappers!(concat!("Option<Arc<", $xname, ">>"), Option<Arc<$x>>);
        wrappers!(concat!("Rc<", $xname, ">"), Rc<$x>);
        wrappers!(concat!("Option<Rc<", $xname, ">>"), Option<Rc<$x>>);
        wrappers!(concat!("Weak<", $xname, ">"), Weak<$x>);
    };
}

fn main() {
    kinds!("Send+Sync", PSS);
    kinds!("Send+!Sync", PSn);
    kinds!("!Send+Sync", PnS);
    kinds!("!Send+!Sync", Pnn);
}
