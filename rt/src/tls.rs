//! Engine-managed thread-local storage with the `std::thread::LocalKey` surface arc-swap uses
//! (`try_with`). Outside the engine it is a real `std::thread_local!`.

use crate::engine::{current_tid, tls_insert, tls_lookup, TlsLookup};

#[derive(Debug, Clone, Copy, PartialEq, Eq)]
pub struct AccessError;

impl core::fmt::Display for AccessError {
    fn fmt(&self, f: &mut core::fmt::Formatter<'_>) -> core::fmt::Result {
        f.write_str("already destroyed")
    }
}

pub struct Key<T: 'static> {
    init: fn() -> T,
    real: fn(&mut dyn FnMut(Option<&T>)),
}

unsafe fn drop_box<T>(p: *mut ()) {
    drop(Box::from_raw(p as *mut T));
}

impl<T: 'static> Key<T> {
    #[doc(hidden)]
    pub const fn new(init: fn() -> T, real: fn(&mut dyn FnMut(Option<&T>))) -> Self {
        Key { init, real }
    }

    pub fn try_with<R, F: FnOnce(&T) -> R>(&'static self, f: F) -> Result<R, AccessError> {
        match current_tid() {
            None => {
                let mut f = Some(f);
                let mut out = None;
                (self.real)(&mut |v| {
                    if let Some(v) = v {
                        out = Some((f.take().unwrap())(v));
                    }
                });
                out.ok_or(AccessError)
            }
            Some(me) => {
                let key = self as *const _ as usize;
                let ptr = match tls_lookup(me, key) {
                    TlsLookup::Alive(p) => p as *const T,
                    TlsLookup::Destroyed => return Err(AccessError),
                    TlsLookup::Absent => {
                        let p = Box::into_raw(Box::new((self.init)()));
                        tls_insert(me, key, p as *mut (), drop_box::<T>);
                        p as *const T
                    }
                };
                Ok(f(unsafe { &*ptr }))
            }
        }
    }

    pub fn with<R, F: FnOnce(&T) -> R>(&'static self, f: F) -> R {
        self.try_with(f)
            .expect("cannot access a thread-local value during or after destruction")
    }
}

/// Drop-in for the `static NAME: T = init;` form of `std::thread_local!`.
#[macro_export]
macro_rules! thread_local {
    ($(#[$attr:meta])* $vis:vis static $name:ident : $t:ty = $init:expr $(;)?) => {
        $(#[$attr])*
        $vis static $name: $crate::tls::Key<$t> = {
            ::std::thread_local! { static REAL: $t = $init; }
            fn init() -> $t { $init }
            fn with_real(f: &mut dyn FnMut(Option<&$t>)) {
                let mut called = false;
                let r = REAL.try_with(|v| { called = true; f(Some(v)) });
                if r.is_err() && !called { f(None) }
            }
            $crate::tls::Key::new(init, with_real)
        };
    };
}
