//! Runtime of the arc-swap verification machinery: shim atomics, engine-managed thread-local
//! storage, race cells and a stateless model checker (controlled scheduler + view-based weak
//! memory model) that explores all executions of a small harness within deviation bounds.
//!
//! When no engine is attached to the calling OS thread every shim is a pass-through to the real
//! primitive with the requested ordering.

pub mod atomic;
pub mod cell;
pub mod cfg;
pub mod engine;
pub mod sync;
pub mod tls;

pub use engine::*;
