//! The stateless model checker.
//!
//! Model threads are stackful coroutines on the one OS thread that drives the exploration, so
//! exactly one of them runs at any time and a context switch costs nanoseconds. Every engine-visible
//! operation (shim atomics, race cells are not, spawn, join, barrier, harness `choose`) goes
//! through this module, which owns every nondeterministic decision of an execution:
//!
//! * which thread runs next (a switch away from a runnable thread costs one *preemption*),
//! * which message a load or a failed compare-exchange reads (a non-newest one costs one
//!   *stale read*),
//! * spurious failure of `compare_exchange_weak` (costs one *spurious failure*),
//! * free harness choices.
//!
//! An execution is fully determined by its choice vector. The driver enumerates all choice
//! vectors within the deviation bounds depth first.

use std::cell::Cell;
use std::collections::HashMap;
use std::fmt::Write as _;
use std::panic::{self, AssertUnwindSafe};
use std::sync::atomic::{AtomicU64 as CoreU64, AtomicUsize as CoreUsize, Ordering};
use std::cell::UnsafeCell;
use std::sync::{Arc as StdArc, Mutex, Once, OnceLock};

use corosensei::stack::DefaultStack;
use corosensei::{Coroutine, CoroutineResult, Yielder};

/// Maximum number of model threads per execution (including the harness main thread).
pub const MAXT: usize = 8;
const NOBODY: usize = usize::MAX;
const CONTROLLER: usize = usize::MAX - 1;
/// `current` value telling the controller to give up on the execution (it does not terminate
/// even while draining): the unfinished coroutines are leaked and never resumed.
const ABANDON: usize = usize::MAX - 2;

thread_local! {
    // Const-initialised, no destructor: usable at any point of an OS thread's life.
    static CUR: Cell<usize> = const { Cell::new(NOBODY) };
}

/// The model thread attached to the calling OS thread, if any.
#[inline]
pub fn current_tid() -> Option<usize> {
    let v = CUR.with(|c| c.get());
    if v == NOBODY {
        None
    } else {
        Some(v)
    }
}

/// True if the caller runs under the engine.
#[inline]
pub fn attached() -> bool {
    current_tid().is_some()
}

// ------------------------------------------------------------------------------------------
// Clocks and views

#[derive(Clone, Copy, Default, PartialEq, Eq, Debug)]
pub struct VC(pub [u32; MAXT]);

impl VC {
    #[inline]
    fn join(&mut self, o: &VC) {
        for i in 0..MAXT {
            if o.0[i] > self.0[i] {
                self.0[i] = o.0[i];
            }
        }
    }
}

#[derive(Clone, Default, Debug)]
struct View(Vec<u32>);

impl View {
    #[inline]
    fn get(&self, l: usize) -> u32 {
        self.0.get(l).copied().unwrap_or(0)
    }
    #[inline]
    fn raise(&mut self, l: usize, v: u32) {
        if self.0.len() <= l {
            self.0.resize(l + 1, 0);
        }
        if self.0[l] < v {
            self.0[l] = v;
        }
    }
    #[inline]
    fn join(&mut self, o: &View) {
        if self.0.len() < o.0.len() {
            self.0.resize(o.0.len(), 0);
        }
        for (a, b) in self.0.iter_mut().zip(o.0.iter()) {
            if *b > *a {
                *a = *b;
            }
        }
    }
}

/// Clock + view: what a release publishes and an acquire obtains.
#[derive(Clone, Default, Debug)]
struct VV {
    vc: VC,
    view: View,
}

impl VV {
    #[inline]
    fn join(&mut self, o: &VV) {
        self.vc.join(&o.vc);
        self.view.join(&o.view);
    }
}

// ------------------------------------------------------------------------------------------
// Configuration and results

#[derive(Clone, Copy, Debug, PartialEq, Eq)]
pub enum Model {
    /// SeqCst access = access between two view-only full barriers; releases are A-cumulative.
    M1,
    /// Verdict model: SeqCst access = leading SC fence + acquire/release access (the strongest
    /// reading every hardware mapping of SeqCst guarantees), no cumulativity.
    M2,
    /// Abstract-machine diagnostic model: SeqCst accesses are *not* fences. An SC read of x reads
    /// no older than the last SC write to x and than what SC fences published for x; an SC write
    /// to x is seen by every later SC fence (RC11's psc with S and mo taken as execution order).
    M3,
    /// M3, but a failing compare-exchange reads the newest value (what Miri implements).
    M3L,
    /// Sequential consistency (every load reads the newest message). Used by engine self tests.
    Sc,
}

#[derive(Clone, Debug)]
pub struct Config {
    pub p: u32,
    pub s: u32,
    pub f: u32,
    pub model: Model,
    /// Budget of *free atomic calls*: model threads that declared themselves atomic
    /// (`atomic_thread()`) never get preempted inside a call, and one complete call of theirs
    /// (delimited by `call_boundary()`) can be placed at any scheduling point of a non-atomic
    /// thread for one unit of this budget instead of a preemption. With `p = 0` this is the C08
    /// adversary: complete writes between any two steps of the thread under test.
    /// Free placements of complete calls of atomic threads; `K_FROM_INSTANCE` = the harness
    /// table decides (resolved by the runner before the engine starts).
    pub k: u32,
    /// Cap on engine steps of one execution.
    pub step_cap: u64,
    /// Record a readable event trace (replay mode).
    pub trace: bool,
    /// Order in which thread-local values are destroyed: false = creation order.
    pub tls_reverse: bool,
}

/// See `Config::k`.
pub const K_FROM_INSTANCE: u32 = u32::MAX;

impl Default for Config {
    fn default() -> Self {
        Config {
            p: 2,
            s: 1,
            f: 1,
            model: Model::M1,
            k: K_FROM_INSTANCE,
            step_cap: 5000,
            trace: false,
            tls_reverse: false,
        }
    }
}

#[derive(Clone, Debug)]
pub struct Violation {
    pub property: String,
    pub oracle: String,
    pub message: String,
    pub tid: usize,
    pub step: u64,
}

/// Outcome of one execution.
#[derive(Clone, Debug, Default)]
pub struct ExecResult {
    pub steps: u64,
    /// Number of choice points with more than one alternative.
    pub choice_points: usize,
    pub violation: Option<Violation>,
    pub choices: Vec<u16>,
    pub trace: Vec<String>,
    pub preemptions: u32,
    pub stale_reads: u32,
    pub spurious: u32,
}

#[derive(Clone, Copy, Debug)]
struct CP {
    n: u16,
    c: u16,
}

// ------------------------------------------------------------------------------------------
// Execution state

#[derive(Clone, Copy, PartialEq, Eq, Debug)]
enum Status {
    Free,
    Runnable,
    BlockedJoin(usize),
    BlockedBarrier,
    /// Waiting until every other model thread has finished.
    BlockedAll,
    /// Waiting for a model-level reader-writer lock.
    BlockedLock(usize),
    Finished,
}

#[derive(Clone, Copy, PartialEq, Eq)]
enum TlsState {
    Alive,
    Destroyed,
}

struct TlsEntry {
    key: usize,
    ptr: *mut (),
    drop: unsafe fn(*mut ()),
    state: TlsState,
}

struct CallInfo {
    start_steps: u64,
    cap: u64,
    property: &'static str,
    name: &'static str,
}

struct Th {
    status: Status,
    vc: VC,
    view: View,
    obs: VV,
    relf: VV,
    steps: u64,
    stale: u32,
    quiet: u32,
    call: Option<CallInfo>,
    call_depth: u32,
    tls: Vec<TlsEntry>,
    tls_torn: bool,
    /// Declared by the thread itself: runs whole calls without being preempted.
    atomic: bool,
    /// Like the execution's context tag, but only for violations raised by this thread.
    tag: String,
    yielder: *const (),
    /// Set when the thread receives the baton at its start or after being blocked: its next
    /// scheduling point offers no alternatives (switching away before it did anything is
    /// equivalent to a different choice at the hand-over point).
    just_scheduled: bool,
}

impl Th {
    fn new() -> Th {
        Th {
            status: Status::Free,
            vc: VC::default(),
            view: View::default(),
            obs: VV::default(),
            relf: VV::default(),
            steps: 0,
            stale: 0,
            quiet: 0,
            call: None,
            call_depth: 0,
            tls: Vec::new(),
            tls_torn: false,
            atomic: false,
            tag: String::new(),
            yielder: std::ptr::null(),
            just_scheduled: false,
        }
    }
}

struct Msg {
    val: usize,
    rel: VV,
    writer: u8,
}

struct Loc {
    msgs: Vec<Msg>,
    addr: usize,
    /// Index of the newest message written by a SeqCst access (models M3/M3L).
    sc_w: u32,
}

#[derive(Default)]
struct LockState {
    readers: u32,
    writer: bool,
    rel: VV,
}

struct RaceCell {
    w_t: u8,
    w_c: u32,
    r: VC,
}

type Job = Box<dyn FnOnce() + 'static>;

struct St {
    cfg: Config,
    // exploration
    stack: Vec<CP>,
    pos: usize,
    // per execution
    epoch: u32,
    running: bool,
    current: usize,
    done: bool,
    nthreads: usize,
    threads: Vec<Th>,
    locs: Vec<Loc>,
    cells: Vec<RaceCell>,
    locks: Vec<LockState>,
    scv: View,
    p_left: u32,
    s_left: u32,
    f_left: u32,
    k_left: u32,
    /// Some(t): an atomic thread is running one placed call; when it reaches its call
    /// boundary the baton goes back to t.
    atomic_return: Option<usize>,
    steps: u64,
    drain: bool,
    violation: Option<Violation>,
    trace: Vec<String>,
    names: HashMap<usize, String>,
    barrier_waiting: Vec<usize>,
    /// Appended to the property list of every violation of this execution (set by harnesses in
    /// which any failed oracle also witnesses another property, e.g. ",C13" after a wrap-around).
    context_tag: String,
}


type Fiber = Coroutine<(), (), (), DefaultStack>;
const FIBER_STACK: usize = 1 << 20;

struct Global {
    st: UnsafeCell<St>,
    fibers: [UnsafeCell<Option<Fiber>>; MAXT],
    stacks: UnsafeCell<Vec<DefaultStack>>,
}

// The engine is used by one OS thread at a time (enforced by OWNER).
unsafe impl Sync for Global {}
unsafe impl Send for Global {}

static GLOBAL: OnceLock<Global> = OnceLock::new();
static ABANDONED: CoreUsize = CoreUsize::new(0);
static TAINTED: std::sync::atomic::AtomicBool = std::sync::atomic::AtomicBool::new(false);
static CRASH_NOTE: Mutex<Option<std::fs::File>> = Mutex::new(None);

/// The choice prefix of every execution is written to this file before the execution starts, so
/// that the driver can name (and replay) the execution during which the process crashed.
pub fn set_crash_note_file(path: &str) {
    if let Ok(f) = std::fs::OpenOptions::new().create(true).write(true).truncate(true).open(path) {
        *CRASH_NOTE.lock().unwrap() = Some(f);
    }
}

fn crash_note(prefix: &[CP]) {
    use std::io::{Seek, SeekFrom, Write};
    if let Ok(mut g) = CRASH_NOTE.lock() {
        if let Some(f) = g.as_mut() {
            let mut line = String::with_capacity(prefix.len() * 3 + 2);
            for (i, c) in prefix.iter().enumerate() {
                if i > 0 {
                    line.push(',');
                }
                line.push_str(&c.c.to_string());
            }
            line.push('\n');
            let _ = f.seek(SeekFrom::Start(0));
            let _ = f.write_all(line.as_bytes());
            let _ = f.set_len(line.len() as u64);
        }
    }
}

/// True once an execution was given up in the middle of a panic. The panic machinery of the OS
/// thread then still counts that panic as in flight, so any further panic in this process would
/// abort it: the process must not run further executions (the driver starts a fresh worker).
pub fn tainted() -> bool {
    TAINTED.load(Ordering::SeqCst)
}
static OWNER: Mutex<()> = Mutex::new(());

fn g() -> &'static Global {
    GLOBAL.get_or_init(|| Global {
        st: UnsafeCell::new(St {
            cfg: Config::default(),
            stack: Vec::new(),
            pos: 0,
            epoch: 0,
            running: false,
            current: CONTROLLER,
            done: false,
            nthreads: 0,
            threads: (0..MAXT).map(|_| Th::new()).collect(),
            locs: Vec::new(),
            cells: Vec::new(),
            locks: Vec::new(),
            scv: View::default(),
            p_left: 0,
            s_left: 0,
            f_left: 0,
            k_left: 0,
            atomic_return: None,
            steps: 0,
            drain: false,
            violation: None,
            trace: Vec::new(),
            names: HashMap::new(),
            barrier_waiting: Vec::new(),
            context_tag: String::new(),
        }),
        fibers: Default::default(),
        stacks: UnsafeCell::new(Vec::new()),
    })
}

/// Access to the engine state. Never nested, never held across a coroutine switch or a call into
/// user code.
#[inline]
fn with<R>(f: impl FnOnce(&mut St) -> R) -> R {
    unsafe { f(&mut *g().st.get()) }
}

/// Suspend the running model thread `me`; returns when the controller resumes it.
fn suspend(me: usize) {
    let y = with(|st| st.threads[me].yielder) as *const Yielder<(), ()>;
    debug_assert!(!y.is_null());
    unsafe { (*y).suspend(()) };
}

fn switch_to(me: usize, next: usize) {
    debug_assert_ne!(me, next);
    with(|st| st.current = next);
    suspend(me);
}

/// A scheduling point of thread `me`: counts a step, enforces caps, possibly switches.
fn sched_point(me: usize) {
    let next = with(|st| st.sched_decide(me));
    if let Some(n) = next {
        switch_to(me, n);
        if n == ABANDON {
            unreachable!("an abandoned model thread was resumed");
        }
    }
}

/// `me` is blocked (its status says so): hand the baton to somebody else and wait.
fn block_and_yield(me: usize) {
    let next = with(|st| st.pick_next(me));
    match next {
        Some(n) => switch_to(me, n),
        None => with(|st| fatal(st, "deadlock: a model thread blocks and nobody else can run")),
    }
}

impl St {
    fn sched_decide(&mut self, me: usize) -> Option<usize> {
        let st = self;
        st.steps += 1;
        st.threads[me].steps += 1;
        if st.steps > st.cfg.step_cap {
            if st.drain {
                if st.steps > st.cfg.step_cap * 4 {
                    return Some(ABANDON);
                }
            } else {
                let msg = format!("execution exceeded the step cap of {}", st.cfg.step_cap);
                st.set_violation("C09", "steps", msg, me);
            }
        }
        if let Some(ci) = &st.threads[me].call {
            if !st.drain && st.threads[me].steps - ci.start_steps > ci.cap {
                let msg = format!(
                    "call {} by thread {} exceeded its cap of {} own steps (it cannot finish on its own)",
                    ci.name, me, ci.cap
                );
                let prop = ci.property;
                st.set_violation(prop, "steps", msg, me);
            }
        }
        if st.threads[me].just_scheduled {
            st.threads[me].just_scheduled = false;
            return None;
        }
        if st.drain || st.threads[me].quiet > 0 {
            return None;
        }
        if st.threads[me].atomic {
            return None;
        }
        // alternatives: continue | preempt to a runnable non-atomic thread (costs a preemption)
        //               | let a runnable atomic thread run one complete call (costs one k)
        let mut pre: Vec<usize> = Vec::new();
        let mut atom: Vec<usize> = Vec::new();
        for t in 0..st.nthreads {
            if t != me && st.threads[t].status == Status::Runnable {
                if st.threads[t].atomic {
                    atom.push(t);
                } else {
                    pre.push(t);
                }
            }
        }
        if st.p_left == 0 {
            pre.clear();
        }
        if st.k_left == 0 {
            atom.clear();
        }
        if pre.is_empty() && atom.is_empty() {
            return None;
        }
        let k = st.choose(1 + pre.len() + atom.len(), "sched");
        if k == 0 {
            return None;
        }
        if k <= pre.len() {
            st.p_left -= 1;
            let next = pre[k - 1];
            if st.cfg.trace {
                let s = format!("      -- preempt t{} -> t{}", me, next);
                st.trace.push(s);
            }
            Some(next)
        } else {
            let next = atom[k - 1 - pre.len()];
            st.k_left -= 1;
            st.atomic_return = Some(me);
            if st.cfg.trace {
                let s = format!("      -- atomic thread t{} runs one complete call here", next);
                st.trace.push(s);
            }
            Some(next)
        }
    }

    /// The running thread `me` cannot continue (blocked or finished): who runs next? `None` if
    /// nobody can.
    fn pick_next(&mut self, me: usize) -> Option<usize> {
        let others = self.runnable_others(me);
        if others.is_empty() {
            return None;
        }
        let k = if self.drain || self.threads[me].quiet > 0 {
            0
        } else {
            self.choose(others.len(), "next")
        };
        let next = others[k];
        self.threads[next].just_scheduled = true;
        Some(next)
    }
}

fn fatal(st: &mut St, msg: &str) -> ! {
    // A machinery failure (or a non-terminating drain). Print what we know and leave; the master
    // process decides what it means.
    let choices: Vec<String> = st.stack.iter().map(|c| c.c.to_string()).collect();
    println!("FATAL {} choices=[{}]", msg, choices.join(","));
    if let Some(v) = &st.violation {
        println!(
            "FATAL-VIOLATION property={} oracle={} message={}",
            v.property, v.oracle, v.message
        );
    }
    use std::io::Write;
    let _ = std::io::stdout().flush();
    std::process::exit(3);
}

impl St {
    fn runnable_others(&self, me: usize) -> Vec<usize> {
        (0..self.nthreads)
            .filter(|&t| t != me && self.threads[t].status == Status::Runnable)
            .collect()
    }

    /// One decision with `n` allowed alternatives; 0 is the default.
    fn choose(&mut self, n: usize, what: &str) -> usize {
        if n <= 1 || self.drain {
            return 0;
        }
        let i = self.pos;
        self.pos += 1;
        if i < self.stack.len() {
            if self.stack[i].n == u16::MAX {
                // A choice given as a bare number (sharding prefix, replay file): learn n.
                if self.stack[i].c as usize >= n {
                    let msg = format!(
                        "replay divergence at choice point {} ({}): choice {} out of {} alternatives",
                        i, what, self.stack[i].c, n
                    );
                    fatal(self, &msg);
                }
                self.stack[i].n = n as u16;
            } else if self.stack[i].n as usize != n {
                let msg = format!(
                    "replay divergence at choice point {} ({}): recorded {} alternatives, now {}",
                    i, what, self.stack[i].n, n
                );
                fatal(self, &msg);
            }
            self.stack[i].c as usize
        } else {
            self.stack.push(CP { n: n as u16, c: 0 });
            0
        }
    }

    fn set_violation(&mut self, property: &str, oracle: &str, message: String, tid: usize) {
        if self.violation.is_none() && !self.drain {
            if self.cfg.trace {
                self.trace
                    .push(format!("      !! VIOLATION {} [{}] {}", property, oracle, message));
            }
            let mut property = property.to_string();
            let extra = format!("{},{}", self.context_tag, self.threads.get(tid).map(|t| t.tag.as_str()).unwrap_or(""));
            for t in extra.split(',').filter(|t| !t.is_empty()) {
                if !property.split(',').any(|p| p == t) {
                    property.push(',');
                    property.push_str(t);
                }
            }
            self.violation = Some(Violation {
                property,
                oracle: oracle.to_string(),
                message,
                tid,
                step: self.steps,
            });
        }
        self.drain = true;
    }

    fn loc_of(&mut self, cell: &CoreUsize, meta: &CoreU64, me: usize) -> usize {
        let m = meta.load(Ordering::Relaxed);
        let real = cell.load(Ordering::Relaxed);
        if (m >> 32) as u32 == self.epoch && (m & 0xffff_ffff) != 0 {
            let id = (m & 0xffff_ffff) as usize - 1;
            // Re-synchronise after get_mut (exclusive access) changed the value behind our back.
            if self.locs[id].msgs.last().map(|x| x.val) != Some(real) {
                let rel = VV {
                    vc: self.threads[me].vc,
                    view: self.threads[me].view.clone(),
                };
                self.locs[id].msgs.push(Msg { val: real, rel, writer: me as u8 });
                let idx = (self.locs[id].msgs.len() - 1) as u32;
                for t in self.threads.iter_mut() {
                    t.view.raise(id, idx);
                }
                self.scv.raise(id, idx);
            }
            return id;
        }
        let id = self.locs.len();
        self.locs.push(Loc {
            msgs: vec![Msg { val: real, rel: VV::default(), writer: me as u8 }],
            addr: cell as *const _ as usize,
            sc_w: 0,
        });
        meta.store(((self.epoch as u64) << 32) | (id as u64 + 1), Ordering::Relaxed);
        id
    }

    fn loc_name(&self, id: usize) -> String {
        match self.names.get(&self.locs[id].addr) {
            Some(n) => format!("L{}({})", id, n),
            None => format!("L{}", id),
        }
    }
}

#[inline]
fn is_acq(o: Ordering) -> bool {
    matches!(o, Ordering::Acquire | Ordering::AcqRel | Ordering::SeqCst)
}
#[inline]
fn is_rel(o: Ordering) -> bool {
    matches!(o, Ordering::Release | Ordering::AcqRel | Ordering::SeqCst)
}
fn ord_name(o: Ordering) -> &'static str {
    match o {
        Ordering::Relaxed => "rlx",
        Ordering::Acquire => "acq",
        Ordering::Release => "rel",
        Ordering::AcqRel => "acqrel",
        Ordering::SeqCst => "sc",
        _ => "?",
    }
}

/// Atomic operations understood by the engine.
#[derive(Clone, Copy, Debug)]
pub enum Op {
    Load,
    Store(usize),
    Swap(usize),
    Add(usize),
    Sub(usize),
    Cas { expected: usize, new: usize, weak: bool, fail: Ordering },
}

impl St {
    fn sc_pre(&mut self, me: usize, ord: Ordering, loc: usize) {
        if ord != Ordering::SeqCst {
            return;
        }
        match self.cfg.model {
            Model::M3 | Model::M3L => {
                let lo = self.scv.get(loc).max(self.locs[loc].sc_w);
                self.threads[me].view.raise(loc, lo);
            }
            Model::M1 | Model::Sc => {
                let scv = std::mem::take(&mut self.scv);
                self.threads[me].view.join(&scv);
                self.scv = scv;
            }
            Model::M2 => {
                let scv = std::mem::take(&mut self.scv);
                self.threads[me].view.join(&scv);
                self.scv = scv;
                let v = std::mem::take(&mut self.threads[me].view);
                self.scv.join(&v);
                self.threads[me].view = v;
            }
        }
    }

    fn sc_post(&mut self, me: usize, ord: Ordering, loc: usize, wrote: bool) {
        if ord != Ordering::SeqCst {
            return;
        }
        if wrote && matches!(self.cfg.model, Model::M3 | Model::M3L) {
            let idx = (self.locs[loc].msgs.len() - 1) as u32;
            self.locs[loc].sc_w = idx;
            self.scv.raise(loc, idx);
        }
        if matches!(self.cfg.model, Model::M1 | Model::Sc) {
            let v = std::mem::take(&mut self.threads[me].view);
            self.scv.join(&v);
            self.threads[me].view = v;
        }
    }

    /// What a release operation of `me` publishes.
    fn release_vv(&self, me: usize) -> VV {
        let th = &self.threads[me];
        let mut vv = VV { vc: th.vc, view: th.view.clone() };
        if matches!(self.cfg.model, Model::M1 | Model::Sc) {
            vv.join(&th.obs);
        }
        vv
    }

    fn read_msg(&mut self, me: usize, loc: usize, idx: usize, ord: Ordering) -> usize {
        let th = &mut self.threads[me];
        th.view.raise(loc, idx as u32);
        let m = &self.locs[loc].msgs[idx];
        if is_acq(ord) {
            th.vc.join(&m.rel.vc);
            th.view.join(&m.rel.view);
        } else {
            th.obs.join(&m.rel);
        }
        m.val
    }

    fn write_msg(&mut self, me: usize, loc: usize, val: usize, ord: Ordering, rmw_of: Option<usize>) {
        let mut rel = if is_rel(ord) {
            self.release_vv(me)
        } else {
            self.threads[me].relf.clone()
        };
        if let Some(prev) = rmw_of {
            // An RMW continues the release sequence of the message it read.
            let p = self.locs[loc].msgs[prev].rel.clone();
            rel.join(&p);
        }
        let idx = self.locs[loc].msgs.len();
        rel.view.raise(loc, idx as u32);
        self.locs[loc].msgs.push(Msg { val, rel, writer: me as u8 });
        let th = &mut self.threads[me];
        th.view.raise(loc, idx as u32);
        if is_rel(ord) {
            th.vc.0[me] += 1;
        }
    }

    /// Pick the message a load-like access reads. `differs_from`: only messages whose value
    /// differs from it are candidates besides the newest.
    fn pick_read(&mut self, me: usize, loc: usize, differs_from: Option<usize>, what: &str) -> usize {
        let hi = self.locs[loc].msgs.len() - 1;
        if self.drain || self.cfg.model == Model::Sc || self.s_left == 0 || self.threads[me].quiet > 0 {
            return hi;
        }
        let lo = self.threads[me].view.get(loc) as usize;
        if lo >= hi {
            return hi;
        }
        let mut cands: Vec<usize> = Vec::new();
        for i in (lo..hi).rev() {
            match differs_from {
                Some(v) if self.locs[loc].msgs[i].val == v => {}
                _ => cands.push(i),
            }
        }
        if cands.is_empty() {
            return hi;
        }
        let k = self.choose(1 + cands.len(), what);
        if k == 0 {
            hi
        } else {
            self.s_left -= 1;
            self.threads[me].stale += 1;
            cands[k - 1]
        }
    }

    fn access(&mut self, me: usize, loc: usize, op: Op, ord: Ordering) -> (usize, bool, Option<usize>) {
        // returns (value read / previous value, success, new value to put into the real cell)
        match op {
            Op::Load => {
                self.sc_pre(me, ord, loc);
                let idx = self.pick_read(me, loc, None, "read");
                let v = self.read_msg(me, loc, idx, ord);
                self.sc_post(me, ord, loc, false);
                if self.cfg.trace {
                    let hi = self.locs[loc].msgs.len() - 1;
                    let s = format!(
                        "t{} load.{} {} -> {:#x}{}",
                        me,
                        ord_name(ord),
                        self.loc_name(loc),
                        v,
                        if idx != hi { format!("  (STALE: message {} of {})", idx, hi) } else { String::new() }
                    );
                    self.trace.push(s);
                }
                (v, true, None)
            }
            Op::Store(v) => {
                self.sc_pre(me, ord, loc);
                self.write_msg(me, loc, v, ord, None);
                self.sc_post(me, ord, loc, true);
                if self.cfg.trace {
                    let s = format!("t{} store.{} {} <- {:#x}", me, ord_name(ord), self.loc_name(loc), v);
                    self.trace.push(s);
                }
                (0, true, Some(v))
            }
            Op::Swap(_) | Op::Add(_) | Op::Sub(_) => {
                self.sc_pre(me, ord, loc);
                let hi = self.locs[loc].msgs.len() - 1;
                let old = self.read_msg(me, loc, hi, ord);
                let new = match op {
                    Op::Swap(v) => v,
                    Op::Add(v) => old.wrapping_add(v),
                    Op::Sub(v) => old.wrapping_sub(v),
                    _ => unreachable!(),
                };
                self.write_msg(me, loc, new, ord, Some(hi));
                self.sc_post(me, ord, loc, true);
                if self.cfg.trace {
                    let s = format!(
                        "t{} rmw.{} {} {:#x} -> {:#x}",
                        me,
                        ord_name(ord),
                        self.loc_name(loc),
                        old,
                        new
                    );
                    self.trace.push(s);
                }
                (old, true, Some(new))
            }
            Op::Cas { expected, new, weak, fail } => {
                let hi = self.locs[loc].msgs.len() - 1;
                let latest = self.locs[loc].msgs[hi].val;
                // Decide between success, spurious failure and a (possibly stale) failing read.
                // Alternatives are laid out as: 0 = default, then stale failing reads, then spurious.
                let m3 = matches!(self.cfg.model, Model::M3 | Model::M3L);
                // In M3 the access is no fence: a failure is just a load with the failure ordering.
                self.sc_pre(me, if m3 { fail } else { ord }, loc);
                let fail_latest = self.cfg.model == Model::M3L;
                let mut outcome_idx: Option<usize> = None; // Some(i): fail reading message i
                let mut spurious = false;
                if latest == expected {
                    // default: success. Alternatives: fail by reading an older value that differs
                    // (stale), or fail spuriously (weak only).
                    let lo = self.threads[me].view.get(loc) as usize;
                    let mut cands: Vec<usize> = Vec::new();
                    if !self.drain && self.cfg.model != Model::Sc && !fail_latest && self.s_left > 0 && self.threads[me].quiet == 0 {
                        for i in (lo..hi).rev() {
                            if self.locs[loc].msgs[i].val != expected {
                                cands.push(i);
                            }
                        }
                    }
                    let can_spur = weak && !self.drain && self.f_left > 0 && self.threads[me].quiet == 0;
                    let n = 1 + cands.len() + can_spur as usize;
                    let k = self.choose(n, "cas");
                    if k == 0 {
                    } else if k <= cands.len() {
                        self.s_left -= 1;
                        self.threads[me].stale += 1;
                        outcome_idx = Some(cands[k - 1]);
                    } else {
                        self.f_left -= 1;
                        spurious = true;
                    }
                } else {
                    let idx = if fail_latest { hi } else { self.pick_read(me, loc, Some(expected), "casfail") };
                    outcome_idx = Some(idx);
                }
                if spurious {
                    // Reads the newest message (equal to expected) with the failure ordering.
                    self.sc_pre(me, fail, loc);
                    let v = self.read_msg(me, loc, hi, fail);
                    self.sc_post(me, fail, loc, false);
                    if self.cfg.trace {
                        let s = format!(
                            "t{} cas_weak {} SPURIOUS failure (value {:#x})",
                            me,
                            self.loc_name(loc),
                            v
                        );
                        self.trace.push(s);
                    }
                    return (v, false, None);
                }
                match outcome_idx {
                    None => {
                        let old = self.read_msg(me, loc, hi, ord);
                        self.write_msg(me, loc, new, ord, Some(hi));
                        self.sc_post(me, ord, loc, true);
                        if self.cfg.trace {
                            let s = format!(
                                "t{} cas.{} {} {:#x} -> {:#x} ok",
                                me,
                                ord_name(ord),
                                self.loc_name(loc),
                                old,
                                new
                            );
                            self.trace.push(s);
                        }
                        (old, true, Some(new))
                    }
                    Some(idx) => {
                        self.sc_pre(me, fail, loc);
                        let v = self.read_msg(me, loc, idx, fail);
                        self.sc_post(me, fail, loc, false);
                        if self.cfg.trace {
                            let s = format!(
                                "t{} cas.{}/{} {} expected {:#x} FAILED, read {:#x}{}",
                                me,
                                ord_name(ord),
                                ord_name(fail),
                                self.loc_name(loc),
                                expected,
                                v,
                                if idx != hi { format!("  (STALE: message {} of {})", idx, hi) } else { String::new() }
                            );
                            self.trace.push(s);
                        }
                        (v, false, None)
                    }
                }
            }
        }
    }

    fn fence(&mut self, me: usize, ord: Ordering) {
        if is_acq(ord) {
            let obs = std::mem::take(&mut self.threads[me].obs);
            self.threads[me].vc.join(&obs.vc);
            self.threads[me].view.join(&obs.view);
            self.threads[me].obs = obs;
        }
        if ord == Ordering::SeqCst {
            let scv = std::mem::take(&mut self.scv);
            self.threads[me].view.join(&scv);
            self.scv = scv;
            let v = std::mem::take(&mut self.threads[me].view);
            self.scv.join(&v);
            self.threads[me].view = v;
        }
        if is_rel(ord) {
            let vv = self.release_vv(me);
            self.threads[me].relf = vv;
            self.threads[me].vc.0[me] += 1;
        }
        if self.cfg.trace {
            self.trace.push(format!("t{} fence.{}", me, ord_name(ord)));
        }
    }
}


// ------------------------------------------------------------------------------------------
// Entry points used by the shims

/// Perform an atomic operation under the engine. `cell` is the real storage (kept equal to the
/// newest message), `meta` the shim's registration word.
pub(crate) fn atomic_access(me: usize, cell: &CoreUsize, meta: &CoreU64, op: Op, ord: Ordering) -> (usize, bool) {
    sched_point(me);
    with(|st| {
        let loc = st.loc_of(cell, meta, me);
        let (v, ok, newv) = st.access(me, loc, op, ord);
        if let Some(n) = newv {
            cell.store(n, Ordering::SeqCst);
        }
        (v, ok)
    })
}

pub(crate) fn atomic_fence(me: usize, ord: Ordering) {
    sched_point(me);
    with(|st| st.fence(me, ord));
}

/// Race-cell access.
pub(crate) fn cell_access(me: usize, meta: &CoreU64, write: bool, what: &str) {
    with(|st| {
        let m = meta.load(Ordering::Relaxed);
        let id = if (m >> 32) as u32 == st.epoch && (m & 0xffff_ffff) != 0 {
            (m & 0xffff_ffff) as usize - 1
        } else {
            let id = st.cells.len();
            st.cells.push(RaceCell { w_t: 0, w_c: 0, r: VC::default() });
            meta.store(((st.epoch as u64) << 32) | (id as u64 + 1), Ordering::Relaxed);
            id
        };
        if st.drain {
            return;
        }
        let vc = st.threads[me].vc;
        let c = &st.cells[id];
        let mut race: Option<String> = None;
        if c.w_c != 0 && c.w_c > vc.0[c.w_t as usize] {
            race = Some(format!(
                "{} by t{} races with an earlier write by t{} (no happens-before)",
                if write { "write" } else { "read" },
                me,
                c.w_t
            ));
        }
        if write && race.is_none() {
            for t in 0..MAXT {
                if c.r.0[t] > vc.0[t] {
                    race = Some(format!("write by t{} races with an earlier read by t{} (no happens-before)", me, t));
                    break;
                }
            }
        }
        if let Some(r) = race {
            let msg = format!("data race on {}: {}", what, r);
            st.set_violation("C07", "race", msg, me);
            return;
        }
        let mine = vc.0[me];
        let c = &mut st.cells[id];
        if write {
            c.w_t = me as u8;
            c.w_c = mine;
            c.r = VC::default();
        } else if c.r.0[me] < mine {
            c.r.0[me] = mine;
        }
        if st.cfg.trace {
            let s = format!("t{} {} {}", me, if write { "WRITE" } else { "READ " }, what);
            st.trace.push(s);
        }
    })
}

// ------------------------------------------------------------------------------------------
// Model-level reader-writer lock (sync::RwLock)

fn lock_id(st: &mut St, meta: &CoreU64) -> usize {
    let m = meta.load(Ordering::Relaxed);
    if (m >> 32) as u32 == st.epoch && (m & 0xffff_ffff) != 0 {
        (m & 0xffff_ffff) as usize - 1
    } else {
        let id = st.locks.len();
        st.locks.push(LockState::default());
        meta.store(((st.epoch as u64) << 32) | (id as u64 + 1), Ordering::Relaxed);
        id
    }
}

pub(crate) fn lock_acquire(me: usize, meta: &CoreU64, write: bool) {
    loop {
        sched_point(me);
        let ok = with(|st| {
            let id = lock_id(st, meta);
            let free = if write { !st.locks[id].writer && st.locks[id].readers == 0 } else { !st.locks[id].writer };
            if free || st.drain && false {
                if write {
                    st.locks[id].writer = true;
                } else {
                    st.locks[id].readers += 1;
                }
                let rel = st.locks[id].rel.clone();
                st.threads[me].vc.join(&rel.vc);
                st.threads[me].view.join(&rel.view);
                if st.cfg.trace {
                    st.trace.push(format!("t{} lock#{} {}", me, id, if write { "write-locked" } else { "read-locked" }));
                }
                true
            } else {
                st.threads[me].status = Status::BlockedLock(id);
                if st.cfg.trace {
                    st.trace.push(format!("t{} waits for lock#{}", me, id));
                }
                false
            }
        });
        if ok {
            return;
        }
        block_and_yield(me);
    }
}

pub(crate) fn lock_release(me: usize, meta: &CoreU64, write: bool) {
    sched_point(me);
    with(|st| {
        let id = lock_id(st, meta);
        if write {
            st.locks[id].writer = false;
        } else {
            st.locks[id].readers = st.locks[id].readers.saturating_sub(1);
        }
        let vv = st.release_vv(me);
        st.locks[id].rel.join(&vv);
        st.threads[me].vc.0[me] += 1;
        for t in 0..st.nthreads {
            if st.threads[t].status == Status::BlockedLock(id) {
                st.threads[t].status = Status::Runnable;
            }
        }
        if st.cfg.trace {
            st.trace.push(format!("t{} lock#{} released", me, id));
        }
    });
}

// ------------------------------------------------------------------------------------------
// Thread-local storage

pub(crate) enum TlsLookup {
    Alive(*mut ()),
    Destroyed,
    Absent,
}

pub(crate) fn tls_lookup(me: usize, key: usize) -> TlsLookup {
    with(|st| {
        for e in &st.threads[me].tls {
            if e.key == key {
                return match e.state {
                    TlsState::Alive => TlsLookup::Alive(e.ptr),
                    TlsState::Destroyed => TlsLookup::Destroyed,
                };
            }
        }
        TlsLookup::Absent
    })
}

pub(crate) fn tls_insert(me: usize, key: usize, ptr: *mut (), drop: unsafe fn(*mut ())) {
    with(|st| {
        if st.cfg.trace {
            let n = st.threads[me].tls.len();
            st.trace.push(format!("t{} tls-init key #{}", me, n));
        }
        st.threads[me].tls.push(TlsEntry { key, ptr, drop, state: TlsState::Alive });
    })
}

/// Destroys the thread-local values of the calling model thread, under the scheduler. After
/// this, `try_with` on a destroyed key fails, as it does in `std` during thread shutdown; keys
/// first touched afterwards are created (and destroyed at thread end), as in `std`.
pub fn tls_teardown() {
    let me = match current_tid() {
        Some(m) => m,
        None => return,
    };
    loop {
        let next = with(|st| {
            let rev = st.cfg.tls_reverse;
            let trace = st.cfg.trace;
            let th = &mut st.threads[me];
            th.tls_torn = true;
            let pos = if rev {
                th.tls.iter().rposition(|e| e.state == TlsState::Alive)
            } else {
                th.tls.iter().position(|e| e.state == TlsState::Alive)
            };
            match pos {
                None => None,
                Some(i) => {
                    th.tls[i].state = TlsState::Destroyed;
                    let r = (th.tls[i].ptr, th.tls[i].drop);
                    if trace {
                        st.trace.push(format!("t{} tls-destroy key #{}", me, i));
                    }
                    Some(r)
                }
            }
        });
        match next {
            None => return,
            Some((ptr, drop)) => unsafe { drop(ptr) },
        }
    }
}

/// True if the calling model thread's thread-locals have been torn down.
pub fn tls_is_torn() -> bool {
    match current_tid() {
        Some(me) => with(|st| st.threads[me].tls_torn),
        None => false,
    }
}

// ------------------------------------------------------------------------------------------
// Harness API

pub struct JoinHandle<T> {
    tid: usize,
    slot: StdArc<Mutex<Option<T>>>,
}

fn fiber_main(tid: usize, job: Job, y: &Yielder<(), ()>) {
    with(|st| st.threads[tid].yielder = y as *const Yielder<(), ()> as *const ());
    let r = panic::catch_unwind(AssertUnwindSafe(job));
    if let Err(p) = r {
        let msg = if p.downcast_ref::<Injected>().is_some() {
            "an injected panic was not caught by the harness".to_string()
        } else {
            take_last_panic().unwrap_or_else(|| "panic with unknown payload".into())
        };
        with(|st| st.set_violation("C13", "panic", format!("panic escaped from model thread {}: {}", tid, msg), tid));
    }
    // Thread-locals die under the scheduler, like on a real exiting thread.
    let r = panic::catch_unwind(AssertUnwindSafe(tls_teardown));
    if r.is_err() {
        let msg = take_last_panic().unwrap_or_else(|| "panic with unknown payload".into());
        with(|st| {
            st.set_violation(
                "C13",
                "panic",
                format!("panic in a thread-local destructor of model thread {}: {}", tid, msg),
                tid,
            )
        });
    }
    with(|st| {
        st.threads[tid].status = Status::Finished;
        st.threads[tid].yielder = std::ptr::null();
        for t in 0..st.nthreads {
            if st.threads[t].status == Status::BlockedJoin(tid) {
                st.threads[t].status = Status::Runnable;
            }
        }
        for t in 0..st.nthreads {
            if st.threads[t].status == Status::BlockedAll
                && (0..st.nthreads).all(|u| u == t || st.threads[u].status == Status::Finished)
            {
                st.threads[t].status = Status::Runnable;
            }
        }
        if st.cfg.trace {
            st.trace.push(format!("t{} finished", tid));
        }
        if st.threads[tid].atomic {
            if let Some(back) = st.atomic_return.take() {
                if st.threads[back].status == Status::Runnable {
                    st.current = back;
                    return;
                }
            }
        }
        match st.pick_next(tid) {
            Some(n) => st.current = n,
            None => {
                if st.threads.iter().take(st.nthreads).all(|t| t.status == Status::Finished) {
                    st.current = CONTROLLER;
                    st.done = true;
                } else {
                    fatal(st, "deadlock: no runnable model thread but not all have finished");
                }
            }
        }
    });
}

fn make_fiber(tid: usize, job: Job) {
    let stack = unsafe { (*g().stacks.get()).pop() }
        .unwrap_or_else(|| DefaultStack::new(FIBER_STACK).expect("cannot allocate a coroutine stack"));
    let co: Fiber = Coroutine::with_stack(stack, move |y: &Yielder<(), ()>, ()| fiber_main(tid, job, y));
    unsafe {
        let slot = &mut *g().fibers[tid].get();
        debug_assert!(slot.is_none());
        *slot = Some(co);
    }
}

/// Spawn a model thread.
pub fn spawn<T: 'static, F: FnOnce() -> T + 'static>(f: F) -> JoinHandle<T> {
    let me = current_tid().expect("spawn outside of the engine");
    sched_point(me);
    let slot = StdArc::new(Mutex::new(None));
    let slot2 = slot.clone();
    let tid = with(|st| {
        let tid = st.nthreads;
        if tid >= MAXT {
            fatal(st, "too many model threads");
        }
        st.nthreads += 1;
        let mut th = Th::new();
        th.status = Status::Runnable;
        th.vc = st.threads[me].vc;
        th.vc.0[tid] = 1;
        th.view = st.threads[me].view.clone();
        st.threads[me].vc.0[me] += 1;
        st.threads[tid] = th;
        if st.cfg.trace {
            st.trace.push(format!("t{} spawn t{}", me, tid));
        }
        tid
    });
    make_fiber(
        tid,
        Box::new(move || {
            let r = f();
            *slot2.lock().unwrap() = Some(r);
        }),
    );
    JoinHandle { tid, slot }
}

impl<T> JoinHandle<T> {
    pub fn tid(&self) -> usize {
        self.tid
    }
    /// Wait for the thread to finish (including the destruction of its thread-locals). Returns
    /// `None` if the thread panicked.
    pub fn join(self) -> Option<T> {
        let me = current_tid().expect("join outside of the engine");
        let must_wait = with(|st| {
            if st.threads[self.tid].status != Status::Finished {
                st.threads[me].status = Status::BlockedJoin(self.tid);
                true
            } else {
                false
            }
        });
        if must_wait {
            block_and_yield(me);
        }
        with(|st| {
            debug_assert_eq!(st.threads[self.tid].status, Status::Finished);
            let (vc, view) = (st.threads[self.tid].vc, st.threads[self.tid].view.clone());
            st.threads[me].vc.join(&vc);
            st.threads[me].view.join(&view);
            if st.cfg.trace {
                st.trace.push(format!("t{} joined t{}", me, self.tid));
            }
        });
        let r = self.slot.lock().unwrap().take();
        r
    }
}

/// Block until every other model thread has finished, and synchronise with all of them (like
/// joining each). Results are then fetched with `JoinHandle::join`, which no longer blocks.
pub fn join_all() {
    let me = current_tid().expect("join_all outside of the engine");
    let must_wait = with(|st| {
        if (0..st.nthreads).any(|u| u != me && st.threads[u].status != Status::Finished) {
            st.threads[me].status = Status::BlockedAll;
            true
        } else {
            false
        }
    });
    if must_wait {
        block_and_yield(me);
    }
    with(|st| {
        for u in 0..st.nthreads {
            if u != me {
                let (vc, view) = (st.threads[u].vc, st.threads[u].view.clone());
                st.threads[me].vc.join(&vc);
                st.threads[me].view.join(&view);
            }
        }
        if st.cfg.trace {
            st.trace.push(format!("t{} joined all other threads", me));
        }
    });
}

/// Block until `n` model threads have arrived. Synchronises them (like a real barrier would).
pub fn barrier(n: usize) {
    let me = current_tid().expect("barrier outside of the engine");
    let wait = with(|st| {
        st.barrier_waiting.push(me);
        if st.barrier_waiting.len() < n {
            st.threads[me].status = Status::BlockedBarrier;
            return true;
        }
        // Last arriver: everybody synchronises with everybody.
        let ws = std::mem::take(&mut st.barrier_waiting);
        let mut vv = VV::default();
        for &t in &ws {
            vv.vc.join(&st.threads[t].vc);
            vv.view.join(&st.threads[t].view);
        }
        for &t in &ws {
            st.threads[t].vc.join(&vv.vc);
            st.threads[t].view.join(&vv.view);
            st.threads[t].vc.0[t] += 1;
            if t != me {
                st.threads[t].status = Status::Runnable;
            }
        }
        if st.cfg.trace {
            st.trace.push(format!("barrier released by t{}", me));
        }
        false
    });
    if wait {
        block_and_yield(me);
    }
}

/// A free harness-level choice among `n` alternatives (enumerated by the search, costs nothing).
pub fn choose(n: usize) -> usize {
    if current_tid().is_none() {
        return 0;
    }
    with(|st| {
        let k = st.choose(n, "harness");
        if st.cfg.trace {
            st.trace.push(format!("      -- harness choice {} of {}", k, n));
        }
        k
    })
}

/// Run `f` without alternatives: no preemption of the caller, no stale reads, no spurious
/// failures inside. Steps still count.
pub fn quiet<R>(f: impl FnOnce() -> R) -> R {
    let me = match current_tid() {
        Some(m) => m,
        None => return f(),
    };
    with(|st| st.threads[me].quiet += 1);
    struct G(usize);
    impl Drop for G {
        fn drop(&mut self) {
            with(|st| st.threads[self.0].quiet -= 1);
        }
    }
    let _g = G(me);
    f()
}

/// Report an oracle failure. The execution is drained (no further choices, no further oracles)
/// and reported by the driver.
pub fn violation(property: &str, oracle: &str, message: String) {
    let me = current_tid().unwrap_or(0);
    with(|st| st.set_violation(property, oracle, message, me));
}

/// Every violation reported from now on in this execution also counts for these properties
/// (comma separated list).
pub fn set_context_tag(tags: &str) {
    with(|st| st.context_tag = tags.to_string());
}

/// Violations raised by the calling model thread from now on also count for these properties.
pub fn set_thread_tag(tags: &str) {
    if let Some(me) = current_tid() {
        with(|st| st.threads[me].tag = tags.to_string());
    }
}

/// The context tag of the running execution.
pub fn context_tag() -> String {
    with(|st| st.context_tag.clone())
}

/// True once a violation was recorded in this execution (oracles should stay silent then).
pub fn draining() -> bool {
    if current_tid().is_none() {
        return false;
    }
    with(|st| st.drain)
}

/// Global step counter (engine order), usable as a time stamp for histories.
pub fn stamp() -> u64 {
    with(|st| st.steps)
}

/// Steps executed so far by the calling model thread.
pub fn my_steps() -> u64 {
    match current_tid() {
        Some(me) => with(|st| st.threads[me].steps),
        None => 0,
    }
}

/// Number of stale reads the calling model thread has performed so far.
pub fn my_stale_reads() -> u32 {
    match current_tid() {
        Some(me) => with(|st| st.threads[me].stale),
        None => 0,
    }
}

/// The calling model thread's vector clock (happens-before knowledge).
pub fn my_clock() -> VC {
    match current_tid() {
        Some(me) => with(|st| st.threads[me].vc),
        None => VC::default(),
    }
}

/// Bracket an API call for the step oracles: while the call runs, the caller may execute at
/// most `cap` own steps, otherwise `property` is violated.
pub fn call_begin(name: &'static str, property: &'static str, cap: u64) {
    if let Some(me) = current_tid() {
        with(|st| {
            let s = st.threads[me].steps;
            st.threads[me].call_depth += 1;
            // Only the outermost bracket counts steps (user code inside a call may call the API again).
            if st.threads[me].call_depth == 1 {
                st.threads[me].call = Some(CallInfo { start_steps: s, cap, property, name });
            }
            if st.cfg.trace {
                st.trace.push(format!("t{} >> {}", me, name));
            }
        })
    }
}

/// End of a bracketed call; returns the caller's own steps spent in it.
pub fn call_end() -> u64 {
    if let Some(me) = current_tid() {
        with(|st| {
            let s = st.threads[me].steps;
            st.threads[me].call_depth = st.threads[me].call_depth.saturating_sub(1);
            if st.threads[me].call_depth > 0 {
                if st.cfg.trace {
                    st.trace.push(format!("t{} << (nested)", me));
                }
                return 0;
            }
            let r = st.threads[me].call.take().map(|c| s - c.start_steps).unwrap_or(0);
            if st.cfg.trace {
                st.trace.push(format!("t{} << ({} own steps)", me, r));
            }
            r
        })
    } else {
        0
    }
}

/// A scheduling point without a memory operation: user code that takes a while (a serializer, a
/// projection) and may be interrupted there.
pub fn sched_yield() {
    if let Some(me) = current_tid() {
        sched_point(me);
    }
}

/// Declares the calling model thread atomic (see `Config::k`).
pub fn atomic_thread() {
    if let Some(me) = current_tid() {
        with(|st| st.threads[me].atomic = true);
    }
}

/// An atomic thread calls this between its calls: if the call was placed into a gap of another
/// thread, either one more call runs in the same gap (costs one more k) or the baton goes back.
pub fn call_boundary() {
    let me = match current_tid() {
        Some(m) => m,
        None => return,
    };
    let back = with(|st| {
        if !st.threads[me].atomic || st.drain {
            return None;
        }
        let ret = st.atomic_return?;
        let more = if st.k_left > 0 { st.choose(2, "atomic-more") } else { 0 };
        if more == 1 {
            st.k_left -= 1;
            return None;
        }
        st.atomic_return = None;
        if st.threads[ret].status == Status::Runnable {
            Some(ret)
        } else {
            None
        }
    });
    if let Some(t) = back {
        switch_to(me, t);
    }
}

/// Give a readable name to the location behind a shim atomic (for traces).
pub fn name_addr(addr: usize, name: String) {
    if current_tid().is_some() {
        with(|st| {
            if st.cfg.trace {
                st.names.insert(addr, name);
            }
        });
    }
}

/// True if the current execution records a trace (replay mode).
pub fn tracing() -> bool {
    current_tid().is_some() && with(|st| st.cfg.trace)
}

/// Add a line to the trace (replay mode only).
pub fn note(f: impl FnOnce() -> String) {
    if let Some(me) = current_tid() {
        if with(|st| st.cfg.trace) {
            let s = f();
            with(|st| st.trace.push(format!("t{} # {}", me, s)));
        }
    }
}

pub fn remaining_budget() -> (u32, u32, u32) {
    with(|st| (st.p_left, st.s_left, st.f_left))
}

// ------------------------------------------------------------------------------------------
// Panics

/// Payload of panics injected by a harness (as opposed to panics of the code under test).
pub struct Injected(pub &'static str);

thread_local! {
    static LAST_PANIC: std::cell::RefCell<Option<String>> = const { std::cell::RefCell::new(None) };
}

/// Message and location of the most recent non-injected panic on this OS thread.
pub fn take_last_panic() -> Option<String> {
    LAST_PANIC.with(|l| l.borrow_mut().take())
}

/// Installs a panic hook that stays silent for injected panics and records the message of
/// panics on model threads (instead of printing them).
pub fn install_panic_hook() {
    static HOOK: Once = Once::new();
    HOOK.call_once(|| {
        let verbose = std::env::var_os("VERIF_VERBOSE").is_some();
        let prev = panic::take_hook();
        panic::set_hook(Box::new(move |info| {
            if info.payload().downcast_ref::<Injected>().is_some() {
                return;
            }
            let msg = if let Some(s) = info.payload().downcast_ref::<&str>() {
                s.to_string()
            } else if let Some(s) = info.payload().downcast_ref::<String>() {
                s.clone()
            } else {
                "<non-string panic payload>".to_string()
            };
            let loc = info
                .location()
                .map(|l| format!("{}:{}", l.file(), l.line()))
                .unwrap_or_default();
            let full = format!("panicked at {}: {}", loc, msg);
            if let Some(me) = current_tid() {
                let _ = LAST_PANIC.try_with(|l| *l.borrow_mut() = Some(full.clone()));
                if verbose {
                    eprintln!("[model thread] {}", full);
                }
                // A panic that nobody injected, on a model thread: the code under test (or the
                // harness) panicked. Record it and give the execution up right here, on the
                // panicking stack, before any unwinding: unwinding through code whose invariants
                // are already broken tends to panic again inside destructors, which aborts.
                TAINTED.store(true, Ordering::SeqCst);
                with(|st| {
                    let m = format!("a call panicked on model thread {}: {}", me, full);
                    st.set_violation("C13", "panic", m, me);
                    st.current = ABANDON;
                });
                suspend(me);
                unreachable!("an abandoned model thread was resumed");
            } else {
                prev(info);
            }
        }));
    });
}

// ------------------------------------------------------------------------------------------
// The controller

/// Statistics of an exploration.
#[derive(Clone, Debug, Default)]
pub struct Stats {
    pub executions: u64,
    /// Choice-tree nodes visited (choice points with more than one alternative, summed).
    pub nodes: u64,
    pub steps: u64,
    pub max_steps: u64,
    pub max_choice_points: usize,
    pub complete: bool,
    /// When the exploration was stopped by its callback: the prefixes of the subtrees (in
    /// depth-first order) that were not explored yet. Together with what was explored they
    /// cover the whole bounded space below the exploration's prefix.
    pub remaining: Vec<Vec<u16>>,
}

/// Runs one execution with the given choice prefix; entries beyond it are discovered.
fn run_one(cfg: &Config, prefix: &[CP], body: &StdArc<dyn Fn() + Send + Sync>) -> (ExecResult, Vec<CP>) {
    install_panic_hook();
    crash_note(prefix);
    assert!(current_tid().is_none(), "nested explorations are not supported");
    with(|st| {
        assert!(!st.running, "nested explorations are not supported");
        st.cfg = cfg.clone();
        st.stack = prefix.to_vec();
        st.pos = 0;
        st.epoch = st.epoch.wrapping_add(1);
        if st.epoch == 0 {
            st.epoch = 1;
        }
        st.running = true;
        st.done = false;
        st.nthreads = 1;
        for t in st.threads.iter_mut() {
            *t = Th::new();
        }
        st.threads[0].status = Status::Runnable;
        st.threads[0].just_scheduled = true;
        st.threads[0].vc.0[0] = 1;
        st.locs.clear();
        st.cells.clear();
        st.locks.clear();
        st.scv = View::default();
        st.p_left = cfg.p;
        st.s_left = cfg.s;
        st.f_left = cfg.f;
        st.k_left = if cfg.k == K_FROM_INSTANCE { 0 } else { cfg.k };
        st.atomic_return = None;
        st.steps = 0;
        st.drain = false;
        st.violation = None;
        st.trace.clear();
        st.names.clear();
        st.barrier_waiting.clear();
        st.context_tag.clear();
        st.current = 0;
    });
    let b = body.clone();
    make_fiber(0, Box::new(move || b()));
    loop {
        let cur = with(|st| if st.done { None } else { Some(st.current) });
        let t = match cur {
            Some(ABANDON) => {
                // Leak what is left of this execution; the violation that started the drain is
                // reported as usual.
                let mut leaked = 0;
                for slot in g().fibers.iter() {
                    if let Some(mut co) = unsafe { (*slot.get()).take() } {
                        // Forget the frames (no destructors run: they would touch state that is
                        // about to be reset) but keep the stack memory for reuse.
                        unsafe {
                            co.force_reset();
                            (*g().stacks.get()).push(co.into_stack());
                        }
                        leaked += 1;
                    }
                }
                let total = ABANDONED.fetch_add(leaked, Ordering::Relaxed) + leaked;
                if total > 1_000_000 {
                    with(|st| fatal(st, "too many executions had to be abandoned because they do not terminate"));
                }
                break;
            }
            Some(t) => t,
            None => break,
        };
        let slot = unsafe { &mut *g().fibers[t].get() };
        let co = match slot.as_mut() {
            Some(c) => c,
            None => with(|st| fatal(st, "scheduler picked a model thread that has no coroutine")),
        };
        CUR.with(|c| c.set(t));
        let r = co.resume(());
        CUR.with(|c| c.set(NOBODY));
        if let CoroutineResult::Return(()) = r {
            let co = slot.take().unwrap();
            unsafe { (*g().stacks.get()).push(co.into_stack()) };
        }
    }
    with(|st| {
        st.running = false;
        if st.pos < st.stack.len() && st.violation.is_none() {
            let msg = format!(
                "replay divergence: execution ended after {} of {} recorded choices",
                st.pos,
                st.stack.len()
            );
            fatal(st, &msg);
        }
        let res = ExecResult {
            steps: st.steps,
            choice_points: st.pos,
            violation: st.violation.take(),
            choices: st.stack.iter().take(st.pos).map(|c| c.c).collect(),
            trace: std::mem::take(&mut st.trace),
            preemptions: cfg.p - st.p_left,
            stale_reads: cfg.s - st.s_left,
            spurious: cfg.f - st.f_left,
        };
        let mut stack = std::mem::take(&mut st.stack);
        stack.truncate(st.pos);
        (res, stack)
    })
}

/// What the per-execution callback tells the search.
#[derive(PartialEq, Eq, Clone, Copy)]
pub enum Next {
    Continue,
    Stop,
}

/// Depth-first enumeration of all executions of `body` within the bounds of `cfg`, below the
/// choice prefix `prefix` (choices `0..prefix.len()` are fixed). If `limit_depth` is given,
/// alternatives are only taken at choice points with index < limit_depth (used to enumerate
/// sharding prefixes).
///
/// `before` runs on the controller before each execution, `after` after it (with no model
/// thread alive); `after` may turn the result into a violation.
pub fn explore(
    cfg: &Config,
    prefix: &[u16],
    limit_depth: Option<usize>,
    body: StdArc<dyn Fn() + Send + Sync>,
    before: &mut dyn FnMut(),
    after: &mut dyn FnMut(&mut ExecResult) -> Next,
) -> Stats {
    let _owner = OWNER.lock().unwrap_or_else(|e| e.into_inner());
    let mut stats = Stats::default();
    let floor = prefix.len();
    // The numbers of alternatives of the prefix entries are learnt by the first run.
    let mut stack: Vec<CP> = prefix.iter().map(|&c| CP { n: u16::MAX, c }).collect();
    loop {
        before();
        let shared = stack.len();
        let (mut res, mut st2) = run_one(cfg, &stack, &body);
        stats.executions += 1;
        stats.nodes += (st2.len() + 1).saturating_sub(shared.max(1)) as u64;
        stats.steps += res.steps;
        stats.max_steps = stats.max_steps.max(res.steps);
        stats.max_choice_points = stats.max_choice_points.max(st2.len());
        let n = after(&mut res);
        if let Some(d) = limit_depth {
            st2.truncate(d.max(floor));
        }
        if n == Next::Stop {
            for d in (floor..st2.len()).rev() {
                for c in st2[d].c + 1..st2[d].n {
                    let mut p: Vec<u16> = st2[..d].iter().map(|x| x.c).collect();
                    p.push(c);
                    stats.remaining.push(p);
                }
            }
            return stats;
        }
        // Backtrack.
        loop {
            if st2.len() <= floor {
                stats.complete = true;
                return stats;
            }
            let top = st2.last_mut().unwrap();
            if top.c + 1 < top.n {
                top.c += 1;
                break;
            }
            st2.pop();
        }
        stack = st2;
    }
}

/// Run the single execution that follows `prefix` and then takes every default; returns its
/// result and, for every choice point at or beyond the prefix, the number of alternatives.
pub fn probe(
    cfg: &Config,
    prefix: &[u16],
    body: StdArc<dyn Fn() + Send + Sync>,
    before: &mut dyn FnMut(),
    after: &mut dyn FnMut(&mut ExecResult),
) -> (ExecResult, Vec<u16>) {
    let _owner = OWNER.lock().unwrap_or_else(|e| e.into_inner());
    before();
    let marked: Vec<CP> = prefix.iter().map(|&c| CP { n: u16::MAX, c }).collect();
    let (mut res, stack) = run_one(cfg, &marked, &body);
    after(&mut res);
    let ns = stack.iter().skip(prefix.len()).map(|c| c.n).collect();
    (res, ns)
}

/// Run exactly one execution following `choices` (then defaults) and return its result.
pub fn replay(
    cfg: &Config,
    choices: &[u16],
    body: StdArc<dyn Fn() + Send + Sync>,
    before: &mut dyn FnMut(),
    after: &mut dyn FnMut(&mut ExecResult),
) -> ExecResult {
    let _owner = OWNER.lock().unwrap_or_else(|e| e.into_inner());
    before();
    let marked: Vec<CP> = choices.iter().map(|&c| CP { n: u16::MAX, c }).collect();
    let (mut res, _) = run_one(cfg, &marked, &body);
    after(&mut res);
    res
}

pub fn trace_to_string(t: &[String]) -> String {
    let mut s = String::new();
    for l in t {
        let _ = writeln!(s, "{}", l);
    }
    s
}
