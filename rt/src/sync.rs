//! Engine-aware `RwLock` with the surface the crate's lock-based reference strategy uses
//! (`read`, `write`, `Default`). Under the engine admission is decided by the model (blocking is a
//! model-level wait, acquiring and releasing are scheduling points and carry happens-before);
//! outside it is a plain `std::sync::RwLock`.

use std::sync::atomic::AtomicU64 as CoreU64;
use std::sync::{LockResult, PoisonError, RwLock as StdRwLock, RwLockReadGuard as StdRead, RwLockWriteGuard as StdWrite};

use crate::engine::{current_tid, lock_acquire, lock_release};

pub struct RwLock<T> {
    real: StdRwLock<T>,
    meta: CoreU64,
}

impl<T> RwLock<T> {
    pub const fn new(v: T) -> Self {
        RwLock { real: StdRwLock::new(v), meta: CoreU64::new(0) }
    }

    pub fn read(&self) -> LockResult<RwLockReadGuard<'_, T>> {
        let me = current_tid();
        if let Some(me) = me {
            lock_acquire(me, &self.meta, false);
        }
        // Under the engine the model already guarantees that no writer holds the lock.
        let r = if me.is_some() { self.real.try_read().map_err(|e| match e {
            std::sync::TryLockError::Poisoned(p) => p,
            std::sync::TryLockError::WouldBlock => panic!("engine RwLock: model admitted a reader while the real lock is write-locked"),
        }) } else { self.real.read() };
        match r {
            Ok(g) => Ok(RwLockReadGuard { lock: self, real: Some(g), engine: me.is_some() }),
            Err(p) => Err(PoisonError::new(RwLockReadGuard { lock: self, real: Some(p.into_inner()), engine: me.is_some() })),
        }
    }

    pub fn write(&self) -> LockResult<RwLockWriteGuard<'_, T>> {
        let me = current_tid();
        if let Some(me) = me {
            lock_acquire(me, &self.meta, true);
        }
        let r = if me.is_some() { self.real.try_write().map_err(|e| match e {
            std::sync::TryLockError::Poisoned(p) => p,
            std::sync::TryLockError::WouldBlock => panic!("engine RwLock: model admitted a writer while the real lock is held"),
        }) } else { self.real.write() };
        match r {
            Ok(g) => Ok(RwLockWriteGuard { lock: self, real: Some(g), engine: me.is_some() }),
            Err(p) => Err(PoisonError::new(RwLockWriteGuard { lock: self, real: Some(p.into_inner()), engine: me.is_some() })),
        }
    }
}

impl<T: Default> Default for RwLock<T> {
    fn default() -> Self {
        Self::new(T::default())
    }
}

pub struct RwLockReadGuard<'a, T> {
    lock: &'a RwLock<T>,
    real: Option<StdRead<'a, T>>,
    engine: bool,
}

impl<T> core::ops::Deref for RwLockReadGuard<'_, T> {
    type Target = T;
    fn deref(&self) -> &T {
        self.real.as_ref().unwrap()
    }
}

impl<T> Drop for RwLockReadGuard<'_, T> {
    fn drop(&mut self) {
        self.real.take();
        if self.engine {
            if let Some(me) = current_tid() {
                lock_release(me, &self.lock.meta, false);
            }
        }
    }
}

pub struct RwLockWriteGuard<'a, T> {
    lock: &'a RwLock<T>,
    real: Option<StdWrite<'a, T>>,
    engine: bool,
}

impl<T> core::ops::Deref for RwLockWriteGuard<'_, T> {
    type Target = T;
    fn deref(&self) -> &T {
        self.real.as_ref().unwrap()
    }
}

impl<T> core::ops::DerefMut for RwLockWriteGuard<'_, T> {
    fn deref_mut(&mut self) -> &mut T {
        self.real.as_mut().unwrap()
    }
}

impl<T> Drop for RwLockWriteGuard<'_, T> {
    fn drop(&mut self) {
        self.real.take();
        if self.engine {
            if let Some(me) = current_tid() {
                lock_release(me, &self.lock.meta, true);
            }
        }
    }
}
