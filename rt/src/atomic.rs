//! Shim atomics with the method set arc-swap uses. Pass-through when no engine is attached.

use core::fmt;
use core::marker::PhantomData;
use core::sync::atomic::{AtomicPtr as CorePtr, AtomicU64 as CoreU64, AtomicUsize as CoreUsize, Ordering};

use crate::engine::{atomic_access, atomic_fence, current_tid, Op};

#[repr(C)]
pub struct AtomicUsize {
    real: CoreUsize,
    meta: CoreU64,
}

impl AtomicUsize {
    pub const fn new(v: usize) -> Self {
        AtomicUsize { real: CoreUsize::new(v), meta: CoreU64::new(0) }
    }
    #[inline]
    pub fn get_mut(&mut self) -> &mut usize {
        self.real.get_mut()
    }
    #[inline]
    pub fn into_inner(self) -> usize {
        self.real.into_inner()
    }
    /// Address used to name this location in traces.
    pub fn addr(&self) -> usize {
        &self.real as *const _ as usize
    }
    /// The newest value, read without involving the engine (introspection only).
    pub fn peek(&self) -> usize {
        self.real.load(Ordering::Relaxed)
    }
    #[inline]
    pub fn load(&self, o: Ordering) -> usize {
        match current_tid() {
            None => self.real.load(o),
            Some(me) => {
                check_load(o);
                atomic_access(me, &self.real, &self.meta, Op::Load, o).0
            }
        }
    }
    #[inline]
    pub fn store(&self, v: usize, o: Ordering) {
        match current_tid() {
            None => self.real.store(v, o),
            Some(me) => {
                check_store(o);
                atomic_access(me, &self.real, &self.meta, Op::Store(v), o);
            }
        }
    }
    #[inline]
    pub fn swap(&self, v: usize, o: Ordering) -> usize {
        match current_tid() {
            None => self.real.swap(v, o),
            Some(me) => atomic_access(me, &self.real, &self.meta, Op::Swap(v), o).0,
        }
    }
    #[inline]
    pub fn fetch_add(&self, v: usize, o: Ordering) -> usize {
        match current_tid() {
            None => self.real.fetch_add(v, o),
            Some(me) => atomic_access(me, &self.real, &self.meta, Op::Add(v), o).0,
        }
    }
    #[inline]
    pub fn fetch_sub(&self, v: usize, o: Ordering) -> usize {
        match current_tid() {
            None => self.real.fetch_sub(v, o),
            Some(me) => atomic_access(me, &self.real, &self.meta, Op::Sub(v), o).0,
        }
    }
    #[inline]
    pub fn compare_exchange(&self, cur: usize, new: usize, s: Ordering, f: Ordering) -> Result<usize, usize> {
        match current_tid() {
            None => self.real.compare_exchange(cur, new, s, f),
            Some(me) => {
                check_load(f);
                let (v, ok) =
                    atomic_access(me, &self.real, &self.meta, Op::Cas { expected: cur, new, weak: false, fail: f }, s);
                if ok {
                    Ok(v)
                } else {
                    Err(v)
                }
            }
        }
    }
    #[inline]
    pub fn compare_exchange_weak(&self, cur: usize, new: usize, s: Ordering, f: Ordering) -> Result<usize, usize> {
        match current_tid() {
            None => self.real.compare_exchange_weak(cur, new, s, f),
            Some(me) => {
                check_load(f);
                let (v, ok) =
                    atomic_access(me, &self.real, &self.meta, Op::Cas { expected: cur, new, weak: true, fail: f }, s);
                if ok {
                    Ok(v)
                } else {
                    Err(v)
                }
            }
        }
    }
}

fn check_load(o: Ordering) {
    match o {
        Ordering::Release => panic!("there is no such thing as a release load"),
        Ordering::AcqRel => panic!("there is no such thing as an acquire-release load"),
        _ => {}
    }
}
fn check_store(o: Ordering) {
    match o {
        Ordering::Acquire => panic!("there is no such thing as an acquire store"),
        Ordering::AcqRel => panic!("there is no such thing as an acquire-release store"),
        _ => {}
    }
}

impl Default for AtomicUsize {
    fn default() -> Self {
        Self::new(0)
    }
}

impl fmt::Debug for AtomicUsize {
    fn fmt(&self, f: &mut fmt::Formatter<'_>) -> fmt::Result {
        fmt::Debug::fmt(&self.real.load(Ordering::Relaxed), f)
    }
}

impl From<usize> for AtomicUsize {
    fn from(v: usize) -> Self {
        Self::new(v)
    }
}

/// Shim `AtomicPtr<T>`: stored as an address-sized integer cell.
#[repr(C)]
pub struct AtomicPtr<T> {
    real: CorePtr<T>,
    meta: CoreU64,
    _p: PhantomData<*mut T>,
}

unsafe impl<T> Send for AtomicPtr<T> {}
unsafe impl<T> Sync for AtomicPtr<T> {}

impl<T> AtomicPtr<T> {
    pub const fn new(p: *mut T) -> Self {
        AtomicPtr { real: CorePtr::new(p), meta: CoreU64::new(0), _p: PhantomData }
    }
    #[inline]
    pub fn get_mut(&mut self) -> &mut *mut T {
        self.real.get_mut()
    }
    #[inline]
    pub fn into_inner(self) -> *mut T {
        self.real.into_inner()
    }
    pub fn addr(&self) -> usize {
        &self.real as *const _ as usize
    }
    /// The newest value, read without involving the engine (introspection only).
    pub fn peek(&self) -> *mut T {
        self.real.load(Ordering::Relaxed)
    }
    #[inline]
    fn cell(&self) -> &CoreUsize {
        // AtomicPtr<T> and AtomicUsize have the same size, alignment and in-memory representation.
        unsafe { &*(&self.real as *const CorePtr<T> as *const CoreUsize) }
    }
    #[inline]
    pub fn load(&self, o: Ordering) -> *mut T {
        match current_tid() {
            None => self.real.load(o),
            Some(me) => {
                check_load(o);
                atomic_access(me, self.cell(), &self.meta, Op::Load, o).0 as *mut T
            }
        }
    }
    #[inline]
    pub fn store(&self, v: *mut T, o: Ordering) {
        match current_tid() {
            None => self.real.store(v, o),
            Some(me) => {
                check_store(o);
                atomic_access(me, self.cell(), &self.meta, Op::Store(v as usize), o);
            }
        }
    }
    #[inline]
    pub fn swap(&self, v: *mut T, o: Ordering) -> *mut T {
        match current_tid() {
            None => self.real.swap(v, o),
            Some(me) => atomic_access(me, self.cell(), &self.meta, Op::Swap(v as usize), o).0 as *mut T,
        }
    }
    #[inline]
    pub fn compare_exchange(&self, cur: *mut T, new: *mut T, s: Ordering, f: Ordering) -> Result<*mut T, *mut T> {
        match current_tid() {
            None => self.real.compare_exchange(cur, new, s, f),
            Some(me) => {
                check_load(f);
                let (v, ok) = atomic_access(
                    me,
                    self.cell(),
                    &self.meta,
                    Op::Cas { expected: cur as usize, new: new as usize, weak: false, fail: f },
                    s,
                );
                if ok {
                    Ok(v as *mut T)
                } else {
                    Err(v as *mut T)
                }
            }
        }
    }
    #[inline]
    pub fn compare_exchange_weak(
        &self,
        cur: *mut T,
        new: *mut T,
        s: Ordering,
        f: Ordering,
    ) -> Result<*mut T, *mut T> {
        match current_tid() {
            None => self.real.compare_exchange_weak(cur, new, s, f),
            Some(me) => {
                check_load(f);
                let (v, ok) = atomic_access(
                    me,
                    self.cell(),
                    &self.meta,
                    Op::Cas { expected: cur as usize, new: new as usize, weak: true, fail: f },
                    s,
                );
                if ok {
                    Ok(v as *mut T)
                } else {
                    Err(v as *mut T)
                }
            }
        }
    }
}

impl<T> Default for AtomicPtr<T> {
    fn default() -> Self {
        Self::new(core::ptr::null_mut())
    }
}

impl<T> fmt::Debug for AtomicPtr<T> {
    fn fmt(&self, f: &mut fmt::Formatter<'_>) -> fmt::Result {
        fmt::Debug::fmt(&self.real.load(Ordering::Relaxed), f)
    }
}

/// `core::sync::atomic::fence` under the engine.
#[inline]
pub fn fence(o: Ordering) {
    match current_tid() {
        None => core::sync::atomic::fence(o),
        Some(me) => atomic_fence(me, o),
    }
}
