//! Build-time configuration read by the hooks in /repo (H3).

/// Number of fast debt slots per node. The shipped value is 8; the "small" build configuration
/// uses 2 (the documentation of arc-swap says the exact number is not guaranteed).
#[cfg(feature = "small")]
pub const DEBT_SLOT_CNT: usize = 2;
#[cfg(not(feature = "small"))]
pub const DEBT_SLOT_CNT: usize = 8;
