//! Race cells: plain (non-atomic) data whose accesses are checked against the model's
//! happens-before relation (FastTrack-style: last write epoch + read clock).

use core::cell::UnsafeCell;
use core::sync::atomic::AtomicU64 as CoreU64;

use crate::engine::{cell_access, current_tid};

pub struct VCell<T> {
    v: UnsafeCell<T>,
    meta: CoreU64,
}

unsafe impl<T: Send> Send for VCell<T> {}
unsafe impl<T: Send> Sync for VCell<T> {}

impl<T> VCell<T> {
    pub const fn new(v: T) -> Self {
        VCell { v: UnsafeCell::new(v), meta: CoreU64::new(0) }
    }
    /// A plain read.
    pub fn read<R>(&self, what: &str, f: impl FnOnce(&T) -> R) -> R {
        if let Some(me) = current_tid() {
            cell_access(me, &self.meta, false, what);
        }
        f(unsafe { &*self.v.get() })
    }
    /// A plain write.
    pub fn write<R>(&self, what: &str, f: impl FnOnce(&mut T) -> R) -> R {
        if let Some(me) = current_tid() {
            cell_access(me, &self.meta, true, what);
        }
        f(unsafe { &mut *self.v.get() })
    }
    /// Unchecked access (oracles looking at the value from outside the model).
    pub fn peek<R>(&self, f: impl FnOnce(&T) -> R) -> R {
        f(unsafe { &*self.v.get() })
    }
}

/// Stand-alone race annotation for a plain field that cannot be wrapped (hook H5): the caller
/// passes a per-object registration word.
pub struct RaceTag(CoreU64);

impl RaceTag {
    pub const fn new() -> Self {
        RaceTag(CoreU64::new(0))
    }
    pub fn plain_read(&self, what: &str) {
        if let Some(me) = current_tid() {
            cell_access(me, &self.0, false, what);
        }
    }
    pub fn plain_write(&self, what: &str) {
        if let Some(me) = current_tid() {
            cell_access(me, &self.0, true, what);
        }
    }
}

impl Default for RaceTag {
    fn default() -> Self {
        Self::new()
    }
}
