//! Sharded exploration: a master that never touches the engine itself and a pool of worker
//! processes (one engine each, because the crate's node list is a process global).
//!
//! The choice tree is cut by *position of the first deviations*: a probe runs the execution that
//! follows a prefix and then takes every default; each later choice point j with alternatives
//! k >= 1 yields the child prefix `prefix + [0]*j + [k]`. Children of the root (and, with two
//! split levels, their children) are independent subtrees that workers explore exhaustively.
//! Every execution of the bounded space is run by exactly one probe or one subtree exploration.

use std::collections::{BTreeMap, HashSet, VecDeque};
use std::io::{BufRead, BufReader, Write};
use std::process::{Child, Command, Stdio};
use std::sync::atomic::{AtomicBool, AtomicUsize, Ordering};
use std::sync::{Arc, Condvar, Mutex};

use serde::{Deserialize, Serialize};

use arc_swap_verif_rt as rt;

use crate::runner::{self, Inst, RunResult, ViolRec};

#[derive(Serialize, Deserialize, Clone, Debug, Default)]
pub struct JViol {
    pub instance: String,
    pub property: String,
    pub oracle: String,
    pub message: String,
    pub choices: Vec<u16>,
    pub cfg: String,
    #[serde(default)]
    pub trace: Vec<String>,
    #[serde(default)]
    pub deterministic: bool,
}

impl From<&ViolRec> for JViol {
    fn from(v: &ViolRec) -> Self {
        JViol {
            instance: v.instance.clone(),
            property: v.property.clone(),
            oracle: v.oracle.clone(),
            message: v.message.clone(),
            choices: v.choices.clone(),
            cfg: v.cfg.clone(),
            trace: Vec::new(),
            deterministic: false,
        }
    }
}

#[derive(Serialize, Deserialize, Clone, Debug, Default)]
pub struct JResult {
    pub executions: u64,
    pub nodes: u64,
    pub steps: u64,
    pub max_steps: u64,
    pub max_choice_points: usize,
    pub complete: bool,
    pub outcomes: Vec<u64>,
    pub deciding: Option<JViol>,
    pub known_hits: Vec<(usize, JViol)>,
    pub others: BTreeMap<String, u64>,
    pub first_other: Option<JViol>,
    pub max_call_steps: BTreeMap<String, u64>,
    pub max_nodes: usize,
    pub dev: (u32, u32, u32),
    #[serde(default)]
    pub max_load: (u64, Vec<u16>),
    /// the worker gave an execution up in the middle of a panic and must be replaced
    #[serde(default)]
    pub tainted: bool,
    /// a tainted worker that stopped in the middle of its subtree: what is left of it
    #[serde(default)]
    pub resume: Option<Vec<Vec<u16>>>,
    /// probe only: alternatives at each choice point beyond the prefix
    pub ns: Vec<u16>,
    /// probe only: the recorded call history of that execution
    pub history: Vec<String>,
}

impl JResult {
    pub fn from_run(r: &RunResult) -> JResult {
        JResult {
            executions: r.executions,
            nodes: r.nodes,
            steps: r.steps,
            max_steps: r.max_steps,
            max_choice_points: r.max_choice_points,
            complete: r.complete,
            outcomes: r.outcomes.iter().copied().collect(),
            deciding: r.deciding.as_ref().map(JViol::from),
            known_hits: r.known_hits.iter().map(|(i, v)| (*i, JViol::from(v))).collect(),
            others: r.others.clone(),
            first_other: r.first_other.as_ref().map(JViol::from),
            max_call_steps: r.max_call_steps.clone(),
            max_nodes: r.max_nodes,
            dev: r.max_deviations,
            max_load: r.max_load.clone(),
            tainted: false,
            resume: r.resume.clone(),
            ns: Vec::new(),
            history: Vec::new(),
        }
    }
}

#[derive(Default, Debug, Clone, Serialize)]
pub struct Merged {
    pub executions: u64,
    pub nodes: u64,
    pub steps: u64,
    pub max_steps: u64,
    pub max_choice_points: usize,
    pub complete: bool,
    #[serde(skip)]
    pub outcomes: HashSet<u64>,
    pub distinct_outcomes: usize,
    pub deciding: Option<JViol>,
    pub known_hits: BTreeMap<usize, JViol>,
    pub others: BTreeMap<String, u64>,
    pub first_other: Option<JViol>,
    pub max_call_steps: BTreeMap<String, u64>,
    pub max_nodes: usize,
    pub dev: (u32, u32, u32),
    pub max_load: (u64, Vec<u16>),
    pub tasks: u64,
    pub probes: u64,
    pub samples: Vec<Vec<String>>,
    pub wall_s: f64,
    pub error: Option<String>,
}

impl Merged {
    fn merge(&mut self, r: JResult) {
        self.executions += r.executions;
        self.nodes += r.nodes;
        self.steps += r.steps;
        self.max_steps = self.max_steps.max(r.max_steps);
        self.max_choice_points = self.max_choice_points.max(r.max_choice_points);
        self.outcomes.extend(r.outcomes);
        if self.deciding.is_none() {
            self.deciding = r.deciding;
        }
        for (i, v) in r.known_hits {
            self.known_hits.entry(i).or_insert(v);
        }
        for (k, v) in r.others {
            *self.others.entry(k).or_insert(0) += v;
        }
        if self.first_other.is_none() {
            self.first_other = r.first_other;
        }
        for (k, v) in r.max_call_steps {
            let e = self.max_call_steps.entry(k).or_insert(0);
            *e = (*e).max(v);
        }
        self.max_nodes = self.max_nodes.max(r.max_nodes);
        if r.max_load.0 > self.max_load.0 {
            self.max_load = r.max_load;
        }
        self.dev.0 = self.dev.0.max(r.dev.0);
        self.dev.1 = self.dev.1.max(r.dev.1);
        self.dev.2 = self.dev.2.max(r.dev.2);
        if !r.history.is_empty() && self.samples.len() < 3 {
            self.samples.push(r.history);
        }
    }
}

fn c_of(k: &TaskKind) -> &'static str {
    match k {
        TaskKind::Probe => "P",
        TaskKind::Explore => "X",
        TaskKind::Verify => "V",
    }
}

fn prefix_to_string(p: &[u16]) -> String {
    p.iter().map(|c| c.to_string()).collect::<Vec<_>>().join(",")
}

fn parse_prefix(s: &str) -> Vec<u16> {
    s.split(',').filter(|x| !x.trim().is_empty()).map(|x| x.trim().parse().expect("bad prefix")).collect()
}

pub fn model_name(m: rt::Model) -> &'static str {
    match m {
        rt::Model::M1 => "m1",
        rt::Model::M2 => "m2",
        rt::Model::M3 => "m3",
        rt::Model::M3L => "m3l",
        rt::Model::Sc => "sc",
    }
}

// ------------------------------------------------------------------------------------------
// Worker side

/// `vh worker <instance> <cfg flags> [--deciding Cxx] [--known file]`: serves probe / explore
/// requests read from stdin.
pub fn worker_main(inst: &Inst, cfg: &rt::Config, deciding: Option<&str>, known: &[crate::prop::Known]) {
    if let Ok(p) = std::env::var("VERIF_CRASH_NOTE") {
        rt::set_crash_note_file(&p);
    }
    let stdin = std::io::stdin();
    let stdout = std::io::stdout();
    for line in stdin.lock().lines() {
        let line = match line {
            Ok(l) => l,
            Err(_) => break,
        };
        let (cmd, rest) = line.split_at(1.min(line.len()));
        let prefix = parse_prefix(rest);
        let reply = match cmd {
            "P" => {
                let (r, ns, hist) = runner::probe_local(inst, cfg, &prefix, deciding, known);
                let mut j = JResult::from_run(&r);
                j.ns = ns;
                j.history = hist;
                finish_violation(inst, cfg, &mut j);
                j
            }
            "X" => {
                let r = runner::run_local(inst, cfg, &prefix, None, deciding, known);
                let mut j = JResult::from_run(&r);
                finish_violation(inst, cfg, &mut j);
                j
            }
            "V" => {
                // verification replay of one choice vector, with a trace
                let res = runner::replay_local(inst, cfg, &prefix);
                let mut j = JResult::default();
                j.executions = 1;
                if let Some(v) = &res.violation {
                    j.deciding = Some(JViol {
                        instance: inst.name.clone(),
                        property: v.property.clone(),
                        oracle: v.oracle.clone(),
                        message: v.message.clone(),
                        choices: res.choices.clone(),
                        cfg: runner::cfg_string(cfg),
                        trace: res.trace.clone(),
                        deterministic: false,
                    });
                }
                j
            }
            _ => continue,
        };
        let mut reply = reply;
        reply.tainted = rt::tainted();
        let mut out = stdout.lock();
        let _ = writeln!(out, "@@ {}", serde_json::to_string(&reply).unwrap());
        let _ = out.flush();
        if reply.tainted {
            // see rt::tainted(): this process must not run further executions
            std::process::exit(0);
        }
    }
}

/// Addresses differ between runs (allocator state); compare traces with every large hex number
/// replaced by the index of its first appearance.
pub fn normalize_trace(t: &[String]) -> Vec<String> {
    let mut ids: std::collections::HashMap<String, usize> = std::collections::HashMap::new();
    t.iter()
        .map(|l| {
            let b: Vec<char> = l.chars().collect();
            let mut out = String::new();
            let mut i = 0;
            while i < b.len() {
                // hex numbers with more than 4 digits
                if b[i] == '0' && i + 1 < b.len() && b[i + 1] == 'x' {
                    let mut j = i + 2;
                    while j < b.len() && b[j].is_ascii_hexdigit() {
                        j += 1;
                    }
                    let tok: String = b[i..j].iter().collect();
                    if j - (i + 2) > 4 {
                        let k = ids.len();
                        let id = *ids.entry(tok.to_lowercase()).or_insert(k);
                        out.push_str(&format!("@{}", id));
                    } else {
                        out.push_str(&tok);
                    }
                    i = j;
                    continue;
                }
                // decimal numbers with 9 or more digits (addresses printed by assertions)
                if b[i].is_ascii_digit() && (i == 0 || !b[i - 1].is_ascii_alphanumeric()) {
                    let mut j = i;
                    while j < b.len() && b[j].is_ascii_digit() {
                        j += 1;
                    }
                    let tok: String = b[i..j].iter().collect();
                    if j - i >= 9 {
                        let hex = tok.parse::<u128>().map(|v| format!("0x{:x}", v)).unwrap_or(tok.clone());
                        let k = ids.len();
                        let id = *ids.entry(hex).or_insert(k);
                        out.push_str(&format!("@{}", id));
                    } else {
                        out.push_str(&tok);
                    }
                    i = j;
                    continue;
                }
                out.push(b[i]);
                i += 1;
            }
            out
        })
        .collect()
}

/// Before a violation is reported it is replayed twice with a trace; the traces must agree.
fn finish_violation(inst: &Inst, cfg: &rt::Config, j: &mut JResult) {
    if rt::tainted() {
        // replays would panic again and abort this process; the master verifies with fresh workers
        return;
    }
    let fix = |v: &mut JViol| {
        let a = runner::replay_local(inst, cfg, &v.choices);
        let b = runner::replay_local(inst, cfg, &v.choices);
        let same = normalize_trace(&a.trace) == normalize_trace(&b.trace)
            && a.violation.as_ref().map(|x| (x.property.clone(), normalize_trace(&[x.message.clone()])))
                == b.violation.as_ref().map(|x| (x.property.clone(), normalize_trace(&[x.message.clone()])))
            && a.violation.as_ref().map(|x| normalize_trace(&[x.message.clone()])) == Some(normalize_trace(&[v.message.clone()]));
        v.deterministic = same;
        v.trace = a.trace;
    };
    if let Some(v) = j.deciding.as_mut() {
        fix(v);
    }
    for (_, v) in j.known_hits.iter_mut() {
        fix(v);
    }
    if let Some(v) = j.first_other.as_mut() {
        fix(v);
    }
}

// ------------------------------------------------------------------------------------------
// Master side

#[derive(Clone, Debug)]
enum TaskKind {
    Probe,
    Explore,
    Verify,
}

#[derive(Clone, Debug)]
struct Task {
    kind: TaskKind,
    prefix: Vec<u16>,
    level: u32,
}

struct Shared {
    queue: Mutex<(VecDeque<Task>, usize)>, // (tasks, in flight)
    cv: Condvar,
    stop: AtomicBool,
    merged: Mutex<Merged>,
    errors: Mutex<Vec<String>>,
    tasks_done: AtomicUsize,
    /// workers replaced because an execution panicked without deciding the property
    restarts: AtomicUsize,
}

/// Each restart costs a process; beyond this many panicking executions the instance is given up
/// (machinery error, not a verdict).
const MAX_RESTARTS: usize = 20000;

struct WorkerProc {
    note: String,
    child: Child,
    stdin: std::process::ChildStdin,
    stdout: BufReader<std::process::ChildStdout>,
}

fn spawn_worker(bin: &str, inst_name: &str, cfg: &rt::Config, deciding: Option<&str>, known_file: Option<&str>) -> std::io::Result<WorkerProc> {
    let mut cmd = Command::new(bin);
    cmd.arg("worker")
        .arg(inst_name)
        .args(["--p", &cfg.p.to_string(), "--s", &cfg.s.to_string(), "--f", &cfg.f.to_string()])
        .args(["--model", model_name(cfg.model), "--step-cap", &cfg.step_cap.to_string()]);
    // without --k the instance table inside the worker decides
    if cfg.k != rt::K_FROM_INSTANCE {
        cmd.args(["--k", &cfg.k.to_string()]);
    }
    if let Some(d) = deciding {
        cmd.args(["--deciding", d]);
    }
    if let Some(k) = known_file {
        cmd.args(["--known", k]);
    }
    static SEQ: AtomicUsize = AtomicUsize::new(0);
    let note = format!(
        "{}/crash-note-{}-{}.txt",
        std::env::var("VERIF_SCRATCH").unwrap_or_else(|_| "/verif/.target/scratch".into()),
        std::process::id(),
        SEQ.fetch_add(1, Ordering::Relaxed)
    );
    let _ = std::fs::create_dir_all(std::path::Path::new(&note).parent().unwrap());
    cmd.env("VERIF_CRASH_NOTE", &note);
    cmd.stdin(Stdio::piped()).stdout(Stdio::piped()).stderr(Stdio::inherit());
    let mut child = cmd.spawn()?;
    let stdin = child.stdin.take().unwrap();
    let stdout = BufReader::new(child.stdout.take().unwrap());
    Ok(WorkerProc { note, child, stdin, stdout })
}

/// Sends one request and waits for the reply. Anything the worker prints that is not a reply is
/// collected (FATAL lines of the engine among it).
fn request(w: &mut WorkerProc, t: &Task) -> Result<JResult, String> {
    let c = match t.kind {
        TaskKind::Probe => "P",
        TaskKind::Explore => "X",
        TaskKind::Verify => "V",
    };
    writeln!(w.stdin, "{}{}", c, prefix_to_string(&t.prefix)).map_err(|e| format!("worker pipe: {}", e))?;
    w.stdin.flush().map_err(|e| format!("worker pipe: {}", e))?;
    let mut noise = Vec::new();
    loop {
        let mut line = String::new();
        let n = w.stdout.read_line(&mut line).map_err(|e| format!("worker pipe: {}", e))?;
        if n == 0 {
            let status = w.child.wait().map(|s| s.to_string()).unwrap_or_default();
            let crashed_at = std::fs::read_to_string(&w.note).unwrap_or_default();
            return Err(format!(
                "worker died ({}) while handling {}{}: {} CRASHED-AT[{}]",
                status,
                c,
                prefix_to_string(&t.prefix),
                noise.join(" | "),
                crashed_at.trim()
            ));
        }
        if let Some(j) = line.strip_prefix("@@ ") {
            return serde_json::from_str(j).map_err(|e| format!("bad worker reply: {}", e));
        }
        noise.push(line.trim().to_string());
    }
}

/// Counting semaphore bounding the number of worker requests in flight over all instances.
pub struct Sem {
    n: Mutex<usize>,
    cv: Condvar,
}

impl Sem {
    pub fn new(n: usize) -> Arc<Sem> {
        Arc::new(Sem { n: Mutex::new(n), cv: Condvar::new() })
    }
    fn acquire(&self) {
        let mut g = self.n.lock().unwrap();
        while *g == 0 {
            g = self.cv.wait(g).unwrap();
        }
        *g -= 1;
    }
    fn release(&self) {
        *self.n.lock().unwrap() += 1;
        self.cv.notify_one();
    }
}

pub struct ShardOpts {
    pub sem: Option<Arc<Sem>>,
    pub bin: String,
    pub jobs: usize,
    pub split_levels: u32,
    pub deciding: Option<String>,
    pub known_file: Option<String>,
    pub seed: u64,
    pub deadline: Option<std::time::Instant>,
}

/// Exhaustive exploration of one instance under `cfg`, spread over worker processes.
pub fn run_sharded(inst_name: &str, cfg: &rt::Config, opts: &ShardOpts) -> Merged {
    let t0 = std::time::Instant::now();
    let shared = Arc::new(Shared {
        queue: Mutex::new((VecDeque::new(), 0)),
        cv: Condvar::new(),
        stop: AtomicBool::new(false),
        merged: Mutex::new(Merged::default()),
        errors: Mutex::new(Vec::new()),
        tasks_done: AtomicUsize::new(0),
        restarts: AtomicUsize::new(0),
    });
    shared.queue.lock().unwrap().0.push_back(Task { kind: TaskKind::Probe, prefix: vec![], level: 0 });
    let mut handles = Vec::new();
    for wi in 0..opts.jobs.max(1) {
        let shared = shared.clone();
        let inst_name = inst_name.to_string();
        let cfg = cfg.clone();
        let bin = opts.bin.clone();
        let deciding = opts.deciding.clone();
        let known_file = opts.known_file.clone();
        let split = opts.split_levels;
        let seed = opts.seed;
        let deadline = opts.deadline;
        let sem = opts.sem.clone();
        handles.push(std::thread::spawn(move || {
            let mut proc: Option<WorkerProc> = None;
            let mut rng = seed.wrapping_mul(0x9E3779B97F4A7C15).wrapping_add(wi as u64 + 1);
            loop {
                // take a task
                let task = {
                    let mut q = shared.queue.lock().unwrap();
                    loop {
                        if shared.stop.load(Ordering::SeqCst) {
                            break None;
                        }
                        if !q.0.is_empty() {
                            // VERIF_SEED only permutes the order in which subtrees are handed out.
                            let idx = if seed == 0 {
                                0
                            } else {
                                rng ^= rng << 13;
                                rng ^= rng >> 7;
                                rng ^= rng << 17;
                                (rng % q.0.len().min(8) as u64) as usize
                            };
                            let t = q.0.remove(idx).unwrap();
                            q.1 += 1;
                            break Some(t);
                        }
                        if q.1 == 0 {
                            break None;
                        }
                        q = shared.cv.wait(q).unwrap();
                    }
                };
                let task = match task {
                    Some(t) => t,
                    None => break,
                };
                if let Some(d) = deadline {
                    if std::time::Instant::now() > d {
                        shared.errors.lock().unwrap().push("time budget exhausted before the bounded space was covered".into());
                        shared.stop.store(true, Ordering::SeqCst);
                        let mut q = shared.queue.lock().unwrap();
                        q.1 -= 1;
                        shared.cv.notify_all();
                        break;
                    }
                }
                if proc.is_none() {
                    match spawn_worker(&bin, &inst_name, &cfg, deciding.as_deref(), known_file.as_deref()) {
                        Ok(p) => proc = Some(p),
                        Err(e) => {
                            shared.errors.lock().unwrap().push(format!("cannot start worker: {}", e));
                            shared.stop.store(true, Ordering::SeqCst);
                            let mut q = shared.queue.lock().unwrap();
                            q.1 -= 1;
                            shared.cv.notify_all();
                            break;
                        }
                    }
                }
                if let Some(s) = &sem {
                    s.acquire();
                }
                let res = request(proc.as_mut().unwrap(), &task);
                if let Some(s) = &sem {
                    s.release();
                }
                let mut new_tasks = Vec::new();
                match res {
                    Ok(mut r) => {
                        if r.tainted {
                            // The worker is gone. Violations it found were not replayed yet: do
                            // that with fresh one-shot workers (each replay panics again).
                            proc = None;
                            let verify = |v: &mut JViol| {
                                let mut traces = Vec::new();
                                for _ in 0..2 {
                                    if let Ok(mut w) = spawn_worker(&bin, &inst_name, &cfg, deciding.as_deref(), known_file.as_deref()) {
                                        let t = Task { kind: TaskKind::Verify, prefix: v.choices.clone(), level: 0 };
                                        if let Ok(rr) = request(&mut w, &t) {
                                            if let Some(d) = rr.deciding {
                                                traces.push((normalize_trace(&d.trace), normalize_trace(&[d.message.clone()]), d.trace));
                                            }
                                        }
                                        let _ = w.child.kill();
                                        let _ = w.child.wait();
                                    }
                                }
                                if traces.len() == 2 && traces[0].0 == traces[1].0 && traces[0].1 == traces[1].1 && traces[0].1 == normalize_trace(&[v.message.clone()]) {
                                    v.deterministic = true;
                                    v.trace = traces.pop().unwrap().2;
                                }
                            };
                            if let Some(v) = r.deciding.as_mut() {
                                verify(v);
                            }
                            for (_, v) in r.known_hits.iter_mut() {
                                verify(v);
                            }
                            if r.deciding.is_none() && matches!(task.kind, TaskKind::Explore) && r.resume.is_some() {
                                // A panic that does not decide this property (it is counted under
                                // the property it belongs to): fresh workers take over what is left
                                // of the subtree.
                                let restarts = shared.restarts.fetch_add(1, Ordering::SeqCst) + 1;
                                if restarts > MAX_RESTARTS {
                                    shared.errors.lock().unwrap().push(format!(
                                        "more than {} executions of {} panicked (other property: {:?}); giving the exploration up",
                                        MAX_RESTARTS,
                                        inst_name,
                                        r.others.keys().collect::<Vec<_>>()
                                    ));
                                } else {
                                    for p in r.resume.take().unwrap() {
                                        new_tasks.push(Task { kind: TaskKind::Explore, prefix: p, level: task.level });
                                    }
                                }
                            } else if r.deciding.is_none() && !matches!(task.kind, TaskKind::Probe) {
                                // the rest of this subtree cannot be explored by the dead worker
                                shared.errors.lock().unwrap().push(format!(
                                    "an execution of {} panicked (other property: {:?}); the subtree {}{} was not completed",
                                    inst_name,
                                    r.others.keys().collect::<Vec<_>>(),
                                    c_of(&task.kind),
                                    prefix_to_string(&task.prefix)
                                ));
                            }
                        }
                        if let TaskKind::Probe = task.kind {
                            for (j, &n) in r.ns.iter().enumerate() {
                                for k in 1..n {
                                    let mut p = task.prefix.clone();
                                    p.extend(std::iter::repeat(0).take(j));
                                    p.push(k);
                                    let kind = if task.level + 1 < split { TaskKind::Probe } else { TaskKind::Explore };
                                    new_tasks.push(Task { kind, prefix: p, level: task.level + 1 });
                                }
                            }
                        }
                        let stop = r.deciding.is_some();
                        {
                            let mut m = shared.merged.lock().unwrap();
                            m.tasks += 1;
                            if let TaskKind::Probe = task.kind {
                                m.probes += 1;
                            }
                            m.merge(r);
                        }
                        if stop {
                            shared.stop.store(true, Ordering::SeqCst);
                        }
                    }
                    Err(e) => {
                        // A worker killed by a signal while executing the code under test: the code
                        // crashed the process (memory corruption, abort). The execution it died in
                        // is known from its crash note; confirm with two fresh one-shot workers.
                        let mut handled = false;
                        if e.contains("signal:") {
                            if let Some(at) = e.split("CRASHED-AT[").nth(1).and_then(|s| s.split(']').next()) {
                                let choices = parse_prefix(at);
                                let mut died = 0;
                                for _ in 0..2 {
                                    if let Ok(mut w) = spawn_worker(&bin, &inst_name, &cfg, deciding.as_deref(), known_file.as_deref()) {
                                        let t = Task { kind: TaskKind::Verify, prefix: choices.clone(), level: 0 };
                                        if let Err(e2) = request(&mut w, &t) {
                                            if e2.contains("signal:") {
                                                died += 1;
                                            }
                                        }
                                        let _ = w.child.kill();
                                        let _ = w.child.wait();
                                        let _ = std::fs::remove_file(&w.note);
                                    }
                                }
                                if died == 2 {
                                    let sig = e.split("signal:").nth(1).and_then(|s| s.split(')').next()).unwrap_or("?").trim().to_string();
                                    let v = JViol {
                                        instance: inst_name.clone(),
                                        property: "C01,C13".into(),
                                        oracle: "crash".into(),
                                        message: format!("the process executing the code under test was killed by signal {}) - memory corruption or abort; it dies again, deterministically, when this choice vector is replayed", sig),
                                        choices,
                                        cfg: runner::cfg_string(&cfg),
                                        trace: vec![format!("(no trace: the process dies; run `vh trace {} <choices>` under a debugger)", inst_name)],
                                        deterministic: true,
                                    };
                                    let mut m = shared.merged.lock().unwrap();
                                    let decides = deciding.as_deref().map(|d| v.property.split(',').any(|p| p == d)).unwrap_or(true);
                                    if decides {
                                        if m.deciding.is_none() {
                                            m.deciding = Some(v);
                                        }
                                        shared.stop.store(true, Ordering::SeqCst);
                                    } else {
                                        *m.others.entry(v.property.clone()).or_insert(0) += 1;
                                        if m.first_other.is_none() {
                                            m.first_other = Some(v);
                                        }
                                        // the rest of this subtree is lost
                                        shared.errors.lock().unwrap().push(format!("an execution of {} crashed the worker (other property: C01,C13); its subtree was not completed", inst_name));
                                    }
                                    handled = true;
                                }
                            }
                        }
                        if !handled {
                            shared.errors.lock().unwrap().push(e);
                            shared.stop.store(true, Ordering::SeqCst);
                        }
                        proc = None;
                    }
                }
                shared.tasks_done.fetch_add(1, Ordering::Relaxed);
                let mut q = shared.queue.lock().unwrap();
                q.0.extend(new_tasks);
                q.1 -= 1;
                shared.cv.notify_all();
            }
            if let Some(mut p) = proc {
                drop(p.stdin);
                let _ = p.child.kill();
                let _ = p.child.wait();
                let _ = std::fs::remove_file(&p.note);
            }
        }));
    }
    for h in handles {
        let _ = h.join();
    }
    let mut m = std::mem::take(&mut *shared.merged.lock().unwrap());
    let errs = shared.errors.lock().unwrap().clone();
    let q = shared.queue.lock().unwrap();
    m.complete = errs.is_empty() && m.deciding.is_none() && q.0.is_empty();
    if !errs.is_empty() {
        let mut uniq: Vec<String> = Vec::new();
        for e in &errs {
            if !uniq.contains(e) {
                uniq.push(e.clone());
            }
        }
        let n = uniq.len();
        uniq.truncate(3);
        m.error = Some(format!("{}{}", uniq.join("; "), if n > 3 { format!("; … ({} more)", n - 3) } else { String::new() }));
    }
    m.distinct_outcomes = m.outcomes.len();
    m.wall_s = t0.elapsed().as_secs_f64();
    m
}
