//! C15: complete enumeration of pointer kinds x pointee layouts x count states, checking the
//! RefCnt laws (raw round trip, borrow == convert, inc/dec by exactly one, empties <-> null,
//! a container of Weak does not keep its target alive, container round trip).

use std::any::Any;
use std::panic::{catch_unwind, AssertUnwindSafe};
use std::rc::{Rc, Weak as RcWeak};
use std::sync::{Arc, Weak};

use arc_swap::{ArcSwapAny, RefCnt};

#[derive(Clone, Debug)]
pub struct Case {
    pub kind: String,
    pub pointee: String,
    pub state: String,
    pub law: String,
    pub ok: bool,
    pub detail: String,
}

pub trait Mk: 'static {
    const NAME: &'static str;
    fn mk() -> Self;
}
impl Mk for u8 {
    const NAME: &'static str = "u8";
    fn mk() -> Self {
        7
    }
}
impl Mk for usize {
    const NAME: &'static str = "usize";
    fn mk() -> Self {
        42
    }
}
impl Mk for String {
    const NAME: &'static str = "String";
    fn mk() -> Self {
        "hello".to_string()
    }
}
pub struct Zst;
impl Mk for Zst {
    const NAME: &'static str = "ZST";
    fn mk() -> Self {
        Zst
    }
}
#[repr(align(64))]
pub struct A64(pub u8);
impl Mk for A64 {
    const NAME: &'static str = "align64";
    fn mk() -> Self {
        A64(1)
    }
}
#[repr(align(128))]
pub struct ZstA128;
impl Mk for ZstA128 {
    const NAME: &'static str = "ZST-align128";
    fn mk() -> Self {
        ZstA128
    }
}

/// What the laws need to know about a pointer kind.
pub trait Kind: RefCnt + 'static {
    /// (strong, weak) of the allocation behind the pointer; None for the empty cases.
    fn counts(&self) -> Option<(usize, usize)>;
    /// Which of the two counts a pointer of this kind owns: 0 = strong, 1 = weak.
    const OWNS: usize;
    fn is_empty(&self) -> bool;
}

impl<P: 'static> Kind for Arc<P> {
    fn counts(&self) -> Option<(usize, usize)> {
        Some((Arc::strong_count(self), Arc::weak_count(self)))
    }
    const OWNS: usize = 0;
    fn is_empty(&self) -> bool {
        false
    }
}
impl<P: 'static> Kind for Rc<P> {
    fn counts(&self) -> Option<(usize, usize)> {
        Some((Rc::strong_count(self), Rc::weak_count(self)))
    }
    const OWNS: usize = 0;
    fn is_empty(&self) -> bool {
        false
    }
}
impl<P: 'static> Kind for Weak<P> {
    fn counts(&self) -> Option<(usize, usize)> {
        if self.is_empty() {
            None
        } else {
            // weak_count() reports 0 once the target is gone; use the raw numbers that stay meaningful
            Some((self.strong_count(), if self.strong_count() == 0 { usize::MAX } else { self.weak_count() }))
        }
    }
    const OWNS: usize = 1;
    fn is_empty(&self) -> bool {
        Weak::ptr_eq(self, &Weak::new())
    }
}
impl<P: 'static> Kind for RcWeak<P> {
    fn counts(&self) -> Option<(usize, usize)> {
        if self.is_empty() {
            None
        } else {
            Some((self.strong_count(), if self.strong_count() == 0 { usize::MAX } else { self.weak_count() }))
        }
    }
    const OWNS: usize = 1;
    fn is_empty(&self) -> bool {
        RcWeak::ptr_eq(self, &RcWeak::new())
    }
}
impl<K: Kind> Kind for Option<K> {
    fn counts(&self) -> Option<(usize, usize)> {
        self.as_ref().and_then(|k| k.counts())
    }
    const OWNS: usize = K::OWNS;
    fn is_empty(&self) -> bool {
        match self {
            None => true,
            Some(k) => k.is_empty(),
        }
    }
}

pub struct Elem<K> {
    pub x: K,
    pub keep: Vec<Box<dyn Any>>,
    pub state: &'static str,
    /// For Option<Option<..>>: the value is Some(None), which the representation cannot express.
    pub nested_some_none: bool,
}

fn own(c: (usize, usize), which: usize) -> usize {
    if which == 0 {
        c.0
    } else {
        c.1
    }
}

/// All laws for one element; every law is evaluated independently under catch_unwind.
pub fn laws<K: Kind>(kind: &str, pointee: &str, make: &dyn Fn() -> Elem<K>, out: &mut Vec<Case>) {
    let mut push = |state: &str, law: &str, r: std::thread::Result<Result<(), String>>| {
        let (ok, detail) = match r {
            Ok(Ok(())) => (true, String::new()),
            Ok(Err(e)) => (false, e),
            Err(_) => (false, "panicked".to_string()),
        };
        out.push(Case { kind: kind.into(), pointee: pointee.into(), state: state.into(), law: law.into(), ok, detail });
    };
    let state = make().state;

    // L1: raw round trip preserves identity and both counts
    push(
        state,
        "round-trip",
        catch_unwind(AssertUnwindSafe(|| {
            let e = make();
            let before = e.x.counts();
            let empty = e.x.is_empty();
            let nested = e.nested_some_none;
            let borrowed = K::as_ptr(&e.x);
            let keep = e.keep;
            let p = K::into_ptr(e.x);
            if p != borrowed {
                return Err(format!("into_ptr gives {:p} but as_ptr gave {:p}", p, borrowed));
            }
            if empty != p.is_null() {
                return Err(format!("empty={} but pointer null={}", empty, p.is_null()));
            }
            if !p.is_null() && (p as usize == 3 || (p as usize) < 4096) {
                return Err(format!("pointer {:p} collides with the reserved small values", p));
            }
            let y = unsafe { K::from_ptr(p) };
            if K::as_ptr(&y) != p {
                return Err("from_ptr(into_ptr(x)) points elsewhere".into());
            }
            if y.counts() != before {
                return Err(format!("counts changed by the round trip: {:?} -> {:?}", before, y.counts()));
            }
            if y.is_empty() != empty {
                return Err("emptiness changed by the round trip".into());
            }
            if nested {
                // Some(None) must come back as Some(None) for the round trip to be faithful
                return Err("Some(None) converts to the null pointer and comes back as None: the value is not preserved".into());
            }
            drop(y);
            drop(keep);
            Ok(())
        })),
    );

    // L2: borrowing the raw pointer equals what conversion of a clone gives; clone adds exactly one
    push(
        state,
        "as_ptr==into_ptr(clone)",
        catch_unwind(AssertUnwindSafe(|| {
            let e = make();
            let before = e.x.counts();
            let c = e.x.clone();
            let mid = e.x.counts();
            let p = K::into_ptr(c);
            if p != K::as_ptr(&e.x) {
                return Err("as_ptr differs from into_ptr of a clone".into());
            }
            if let (Some(b), Some(m)) = (before, mid) {
                if own(b, K::OWNS) != usize::MAX && own(m, K::OWNS) != own(b, K::OWNS) + 1 {
                    return Err(format!("clone changed the owned count {} -> {}", own(b, K::OWNS), own(m, K::OWNS)));
                }
            }
            drop(unsafe { K::from_ptr(p) });
            if e.x.counts() != before {
                return Err(format!("counts not restored: {:?} vs {:?}", e.x.counts(), before));
            }
            Ok(())
        })),
    );

    // L3: inc adds exactly one reference, dec removes exactly one
    push(
        state,
        "inc/dec",
        catch_unwind(AssertUnwindSafe(|| {
            let e = make();
            let before = e.x.counts();
            let p = K::inc(&e.x);
            if p != K::as_ptr(&e.x) {
                return Err("inc returned a different pointer".into());
            }
            let mid = e.x.counts();
            match (before, mid) {
                (Some(b), Some(m)) => {
                    if own(b, K::OWNS) != usize::MAX && own(m, K::OWNS) != own(b, K::OWNS) + 1 {
                        return Err(format!("inc changed the owned count {} -> {}", own(b, K::OWNS), own(m, K::OWNS)));
                    }
                    if own(m, 1 - K::OWNS) != own(b, 1 - K::OWNS) {
                        return Err("inc changed the other count".into());
                    }
                }
                (None, None) => {
                    if !p.is_null() {
                        return Err("inc of an empty value returned a non-null pointer".into());
                    }
                }
                _ => return Err("inc changed emptiness".into()),
            }
            unsafe { K::dec(p) };
            if e.x.counts() != before {
                return Err(format!("dec did not restore the counts: {:?} vs {:?}", e.x.counts(), before));
            }
            Ok(())
        })),
    );

    // L4: container round trip: new -> load -> swap -> into_inner, counts restored
    push(
        state,
        "container-round-trip",
        catch_unwind(AssertUnwindSafe(|| {
            let e = make();
            let before = e.x.counts();
            let p = K::as_ptr(&e.x);
            let probe = e.x.clone();
            let other = make();
            let c: ArcSwapAny<K> = ArcSwapAny::new(e.x);
            {
                let g = c.load();
                if K::as_ptr(&g) != p {
                    return Err("load returned a different pointer than was stored".into());
                }
            }
            let full = c.load_full();
            if K::as_ptr(&full) != p {
                return Err("load_full returned a different pointer".into());
            }
            drop(full);
            let op = K::as_ptr(&other.x);
            let old = c.swap(other.x);
            if K::as_ptr(&old) != p {
                return Err("swap returned a different pointer than was stored".into());
            }
            drop(old);
            let last = c.into_inner();
            if K::as_ptr(&last) != op {
                return Err("into_inner returned a different pointer than was stored".into());
            }
            drop(last);
            // probe is one extra reference
            if let (Some(b), Some(n)) = (before, probe.counts()) {
                if own(b, K::OWNS) != usize::MAX && own(n, K::OWNS) != own(b, K::OWNS) {
                    return Err(format!("owned count after the container round trip is {} (was {})", own(n, K::OWNS), own(b, K::OWNS)));
                }
            }
            Ok(())
        })),
    );
}

fn elem<K>(x: K, keep: Vec<Box<dyn Any>>, state: &'static str) -> Elem<K> {
    Elem { x, keep, state, nested_some_none: false }
}

fn arc_states<P: Mk>() -> Vec<Box<dyn Fn() -> Elem<Arc<P>>>> {
    vec![
        Box::new(|| elem(Arc::new(P::mk()), vec![], "unique")),
        Box::new(|| {
            let a = Arc::new(P::mk());
            let k: Vec<Box<dyn Any>> = vec![Box::new(a.clone()), Box::new(a.clone())];
            elem(a, k, "shared")
        }),
        Box::new(|| {
            let a = Arc::new(P::mk());
            let k: Vec<Box<dyn Any>> = vec![Box::new(Arc::downgrade(&a)), Box::new(Arc::downgrade(&a))];
            elem(a, k, "with-weak")
        }),
    ]
}

fn rc_states<P: Mk>() -> Vec<Box<dyn Fn() -> Elem<Rc<P>>>> {
    vec![
        Box::new(|| elem(Rc::new(P::mk()), vec![], "unique")),
        Box::new(|| {
            let a = Rc::new(P::mk());
            let k: Vec<Box<dyn Any>> = vec![Box::new(a.clone()), Box::new(a.clone())];
            elem(a, k, "shared")
        }),
        Box::new(|| {
            let a = Rc::new(P::mk());
            let k: Vec<Box<dyn Any>> = vec![Box::new(Rc::downgrade(&a))];
            elem(a, k, "with-weak")
        }),
    ]
}

fn weak_states<P: Mk>() -> Vec<Box<dyn Fn() -> Elem<Weak<P>>>> {
    vec![
        Box::new(|| {
            let a = Arc::new(P::mk());
            let w = Arc::downgrade(&a);
            elem(w, vec![Box::new(a)], "target-alive")
        }),
        Box::new(|| {
            let a = Arc::new(P::mk());
            let w = Arc::downgrade(&a);
            let k: Vec<Box<dyn Any>> = vec![Box::new(Arc::downgrade(&a)), Box::new(a)];
            elem(w, k, "target-alive-more-weaks")
        }),
        Box::new(|| {
            let a = Arc::new(P::mk());
            let w = Arc::downgrade(&a);
            drop(a);
            elem(w, vec![], "target-dropped")
        }),
        Box::new(|| elem(Weak::new(), vec![], "dangling")),
    ]
}

fn rcweak_states<P: Mk>() -> Vec<Box<dyn Fn() -> Elem<RcWeak<P>>>> {
    vec![
        Box::new(|| {
            let a = Rc::new(P::mk());
            let w = Rc::downgrade(&a);
            elem(w, vec![Box::new(a)], "target-alive")
        }),
        Box::new(|| {
            let a = Rc::new(P::mk());
            let w = Rc::downgrade(&a);
            drop(a);
            elem(w, vec![], "target-dropped")
        }),
        Box::new(|| elem(RcWeak::new(), vec![], "dangling")),
    ]
}

fn for_pointee<P: Mk>(out: &mut Vec<Case>) {
    for m in arc_states::<P>() {
        laws::<Arc<P>>("Arc", P::NAME, &*m, out);
    }
    for m in rc_states::<P>() {
        laws::<Rc<P>>("Rc", P::NAME, &*m, out);
    }
    // Option<Arc>: None plus every Arc state
    laws::<Option<Arc<P>>>("Option<Arc>", P::NAME, &|| elem(None, vec![], "None"), out);
    for m in arc_states::<P>() {
        let m2 = move || {
            let e = m();
            Elem { x: Some(e.x), keep: e.keep, state: e.state, nested_some_none: false }
        };
        laws::<Option<Arc<P>>>("Option<Arc>", P::NAME, &m2, out);
    }
    laws::<Option<Rc<P>>>("Option<Rc>", P::NAME, &|| elem(None, vec![], "None"), out);
    for m in rc_states::<P>() {
        let m2 = move || {
            let e = m();
            Elem { x: Some(e.x), keep: e.keep, state: e.state, nested_some_none: false }
        };
        laws::<Option<Rc<P>>>("Option<Rc>", P::NAME, &m2, out);
    }
    for m in weak_states::<P>() {
        laws::<Weak<P>>("sync::Weak", P::NAME, &*m, out);
    }
    for m in rcweak_states::<P>() {
        laws::<RcWeak<P>>("rc::Weak", P::NAME, &*m, out);
    }
    // nesting accepted by the trait
    laws::<Option<Option<Arc<P>>>>("Option<Option<Arc>>", P::NAME, &|| elem(None, vec![], "None"), out);
    laws::<Option<Option<Arc<P>>>>(
        "Option<Option<Arc>>",
        P::NAME,
        &|| Elem { x: Some(None), keep: vec![], state: "Some(None)", nested_some_none: true },
        out,
    );
    laws::<Option<Option<Arc<P>>>>("Option<Option<Arc>>", P::NAME, &|| elem(Some(Some(Arc::new(P::mk()))), vec![], "Some(Some(unique))"), out);

    // distinct objects have distinct addresses (also zero-sized ones)
    let r = catch_unwind(|| {
        let a = Arc::new(P::mk());
        let b = Arc::new(P::mk());
        if <Arc<P> as RefCnt>::as_ptr(&a) == <Arc<P> as RefCnt>::as_ptr(&b) {
            return Err("two live Arcs have the same raw pointer".to_string());
        }
        let align = std::mem::align_of::<P>();
        if (<Arc<P> as RefCnt>::as_ptr(&a) as usize) % align != 0 {
            return Err("raw pointer is not aligned for the pointee".to_string());
        }
        Ok(())
    });
    let (ok, detail) = match r {
        Ok(Ok(())) => (true, String::new()),
        Ok(Err(e)) => (false, e),
        Err(_) => (false, "panicked".into()),
    };
    out.push(Case { kind: "Arc".into(), pointee: P::NAME.into(), state: "two-objects".into(), law: "distinct-addresses".into(), ok, detail });

    // a container of Weak does not keep its target alive
    let r = catch_unwind(|| {
        let a = Arc::new(P::mk());
        let c: ArcSwapAny<Weak<P>> = ArcSwapAny::new(Arc::downgrade(&a));
        if c.load().upgrade().is_none() {
            return Err("upgrade failed while the target is alive".to_string());
        }
        if Arc::strong_count(&a) != 1 {
            return Err(format!("strong count is {} while only the owner and a container of Weak exist", Arc::strong_count(&a)));
        }
        drop(a);
        if c.load().upgrade().is_some() {
            return Err("the container of Weak kept its target alive".to_string());
        }
        // storing the dangling value and reading it back
        c.store(Weak::new());
        if !Weak::ptr_eq(&c.load(), &Weak::new()) {
            return Err("a dangling Weak did not come back as a dangling Weak".to_string());
        }
        Ok(())
    });
    let (ok, detail) = match r {
        Ok(Ok(())) => (true, String::new()),
        Ok(Err(e)) => (false, e),
        Err(_) => (false, "panicked".into()),
    };
    out.push(Case { kind: "sync::Weak".into(), pointee: P::NAME.into(), state: "container".into(), law: "weak-does-not-keep-alive".into(), ok, detail });
}

pub fn table() -> Vec<Case> {
    let mut out = Vec::new();
    for_pointee::<u8>(&mut out);
    for_pointee::<usize>(&mut out);
    for_pointee::<String>(&mut out);
    for_pointee::<Zst>(&mut out);
    for_pointee::<A64>(&mut out);
    for_pointee::<ZstA128>(&mut out);
    out
}
