//! Per-execution harness state: recorded call history, oracles over it (linearizability, write
//! chain), ownership accounting against the registry and the debt-node introspection hook.

use std::cell::RefCell;
use std::collections::{HashMap, HashSet};
use std::hash::{Hash, Hasher};

use arc_swap_verif_rt as rt;

use crate::varc::{self, reg};

#[derive(Clone, Copy, Debug, PartialEq, Eq, Hash)]
pub enum Kind {
    Load,
    LoadFull,
    Store,
    Swap,
    Cas,
    Rcu,
    CacheLoad,
}

/// One completed API call. Identities are value labels; 0 stands for None/null.
#[derive(Clone, Debug)]
pub struct CallRec {
    pub tid: usize,
    pub container: u8,
    pub kind: Kind,
    pub cur: u64,
    pub new: u64,
    pub ret: u64,
    pub start: u64,
    pub end: u64,
    pub steps: u64,
    /// Stale reads the caller performed inside the call.
    pub stale: u32,
    /// The caller's vector clock at invocation and at return.
    pub start_vc: rt::VC,
    pub end_vc: rt::VC,
}

impl CallRec {
    /// `self` is ordered before `b`: program order, happens-before, or engine (real) time when
    /// `b` read nothing stale. A call that used a stale read behaves as if it had been invoked
    /// earlier (C11 has no real time; only happens-before constrains what it may read), so plain
    /// engine-time order does not bind it.
    pub fn precedes(&self, b: &CallRec) -> bool {
        if self.tid == b.tid {
            return self.end <= b.start;
        }
        if self.end_vc.0[self.tid] <= b.start_vc.0[self.tid] {
            return true;
        }
        self.end <= b.start && b.stale == 0
    }
}

#[derive(Default)]
pub struct World {
    pub history: Vec<CallRec>,
    /// Initial value label per container.
    pub initial: HashMap<u8, u64>,
    /// Extra observations that distinguish outcomes (hashed together with the history).
    pub observations: Vec<u64>,
    /// Maximum own steps seen per (kind) in this execution (C08/C09 statistics).
    pub max_steps: HashMap<Kind, u64>,
    /// Peak number of debt nodes seen at a check point.
    pub max_nodes: usize,
}

thread_local! {
    static WORLD: RefCell<World> = RefCell::new(World::default());
    /// Extra property tag appended to count / final-state violations by harnesses that decide
    /// another property with the same oracle (e.g. ",C18" in the panic-injection harnesses).
    static EXTRA_TAG: RefCell<String> = const { RefCell::new(String::new()) };
}

pub fn set_extra_tag(t: &str) {
    EXTRA_TAG.with(|e| *e.borrow_mut() = t.to_string());
}

fn tag(base: &str) -> String {
    EXTRA_TAG.with(|e| format!("{}{}", base, e.borrow()))
}

pub fn world<R>(f: impl FnOnce(&mut World) -> R) -> R {
    WORLD.with(|w| f(&mut w.borrow_mut()))
}

pub fn reset() {
    world(|w| *w = World::default());
    set_extra_tag("");
}

pub fn record(rec: CallRec) {
    world(|w| {
        let e = w.max_steps.entry(rec.kind).or_insert(0);
        if rec.steps > *e {
            *e = rec.steps;
        }
        w.history.push(rec)
    });
}

pub fn observe(v: u64) {
    world(|w| w.observations.push(v));
}

/// Hash of everything observable in this execution: per-thread call sequences with identities,
/// plus explicit observations. Step stamps are left out (they differ between equivalent runs).
pub fn outcome_hash() -> u64 {
    world(|w| {
        let mut h = std::collections::hash_map::DefaultHasher::new();
        let mut per: Vec<Vec<(Kind, u8, u64, u64, u64)>> = vec![Vec::new(); rt::MAXT];
        for c in &w.history {
            per[c.tid].push((c.kind, c.container, c.cur, c.new, c.ret));
        }
        per.hash(&mut h);
        w.observations.hash(&mut h);
        h.finish()
    })
}

// ------------------------------------------------------------------------------------------
// Linearizability against the atomic-cell specification

fn apply(kind: Kind, cell: u64, c: &CallRec) -> Option<u64> {
    match kind {
        Kind::Load | Kind::LoadFull | Kind::CacheLoad => {
            if c.ret == cell {
                Some(cell)
            } else {
                None
            }
        }
        Kind::Store => Some(c.new),
        Kind::Swap => {
            if c.ret == cell {
                Some(c.new)
            } else {
                None
            }
        }
        Kind::Cas => {
            if c.ret != cell {
                None
            } else if cell == c.cur {
                Some(c.new)
            } else {
                Some(cell)
            }
        }
        // An rcu call is recorded with cur = the value its successful attempt was based on.
        Kind::Rcu => {
            if c.ret == cell && c.cur == cell {
                Some(c.new)
            } else {
                None
            }
        }
    }
}

/// Wing-Gong search with memoisation on (set of linearized calls, cell value).
fn linearizable(calls: &[&CallRec], init: u64) -> bool {
    let n = calls.len();
    assert!(n <= 20);
    let full: u32 = if n == 32 { u32::MAX } else { (1u32 << n) - 1 };
    let mut seen: HashSet<(u32, u64)> = HashSet::new();
    let mut stack: Vec<(u32, u64)> = vec![(0, init)];
    while let Some((done, cell)) = stack.pop() {
        if done == full {
            return true;
        }
        if !seen.insert((done, cell)) {
            continue;
        }
        for i in 0..n {
            if done & (1 << i) != 0 {
                continue;
            }
            // i may be linearized next unless another pending call returned before i was invoked.
            let blocked = (0..n).any(|j| j != i && done & (1 << j) == 0 && calls[j].precedes(calls[i]));
            if blocked {
                continue;
            }
            if let Some(nc) = apply(calls[i].kind, cell, calls[i]) {
                stack.push((done | (1 << i), nc));
            }
        }
    }
    false
}

fn fmt_call(c: &CallRec) -> String {
    let v = |x: u64| if x == 0 { "None".to_string() } else { format!("#{}", x) };
    match c.kind {
        Kind::Load => format!("t{} load -> {}", c.tid, v(c.ret)),
        Kind::LoadFull => format!("t{} load_full -> {}", c.tid, v(c.ret)),
        Kind::CacheLoad => format!("t{} cache.load -> {}", c.tid, v(c.ret)),
        Kind::Store => format!("t{} store({})", c.tid, v(c.new)),
        Kind::Swap => format!("t{} swap({}) -> {}", c.tid, v(c.new), v(c.ret)),
        Kind::Cas => format!("t{} cas({} => {}) -> {}", c.tid, v(c.cur), v(c.new), v(c.ret)),
        Kind::Rcu => format!("t{} rcu({} => {}) -> {}", c.tid, v(c.cur), v(c.new), v(c.ret)),
    }
}

pub fn fmt_history(container: Option<u8>) -> Vec<String> {
    world(|w| {
        w.history
            .iter()
            .filter(|c| container.map(|k| k == c.container).unwrap_or(true))
            .map(|c| format!("[{}..{}{}] c{} {}", c.start, c.end, if c.stale > 0 { " stale" } else { "" }, c.container, fmt_call(c)))
            .collect()
    })
}

/// History oracle: every container's recorded history must be linearizable w.r.t. an atomic
/// cell. `prop` is the property the harness checks with it.
pub fn check_linearizable(prop: &str) {
    if rt::draining() {
        return;
    }
    let (hist, initial) = world(|w| (w.history.clone(), w.initial.clone()));
    let mut containers: Vec<u8> = hist.iter().map(|c| c.container).collect();
    containers.sort();
    containers.dedup();
    for k in containers {
        let calls: Vec<&CallRec> = hist.iter().filter(|c| c.container == k && c.kind != Kind::CacheLoad).collect();
        let init = *initial.get(&k).unwrap_or(&0);
        if !linearizable(&calls, init) {
            let h: Vec<String> = calls
                .iter()
                .map(|c| format!("[{}..{}{}] {}", c.start, c.end, if c.stale > 0 { " stale" } else { "" }, fmt_call(c)))
                .collect();
            rt::violation(
                prop,
                "history",
                format!(
                    "the history of container {} (initial value #{}) is not linearizable as an atomic cell: {}",
                    k,
                    init,
                    h.join("; ")
                ),
            );
            return;
        }
    }
}

/// Chain oracle (C04): no value is handed back (by swap, successful compare_and_swap or rcu)
/// more often than it was put in, and the container ends with a value somebody stored.
/// Together with the history oracle (which orders the writes) and the count oracle (values that
/// were replaced by `store` must be dead) this is "each value comes out exactly once".
pub fn check_write_chain(container: u8, final_value: u64) {
    if rt::draining() {
        return;
    }
    let (hist, init) = world(|w| (w.history.clone(), *w.initial.get(&container).unwrap_or(&0)));
    let mut stored: HashMap<u64, u32> = HashMap::new();
    let mut returned: HashMap<u64, u32> = HashMap::new();
    *stored.entry(init).or_insert(0) += 1;
    for c in hist.iter().filter(|c| c.container == container) {
        let success = match c.kind {
            Kind::Swap | Kind::Rcu => true,
            Kind::Cas => c.ret == c.cur,
            Kind::Store => {
                *stored.entry(c.new).or_insert(0) += 1;
                false
            }
            _ => false,
        };
        if success {
            *stored.entry(c.new).or_insert(0) += 1;
            *returned.entry(c.ret).or_insert(0) += 1;
        }
    }
    for (v, n) in &returned {
        let s = *stored.get(v).unwrap_or(&0);
        if *n > s {
            rt::violation(
                "C04",
                "chain",
                format!(
                    "value #{} was put into container {} {} time(s) but handed back {} times: {:?}",
                    v,
                    container,
                    s,
                    n,
                    fmt_history(Some(container))
                ),
            );
            return;
        }
    }
    if !stored.contains_key(&final_value) {
        rt::violation("C04", "chain", format!("container {} ends with value #{} which nobody stored", container, final_value));
    }
}

// ------------------------------------------------------------------------------------------
// Ownership accounting

/// Addresses currently sitting in debt slots (fast and helping) of all nodes.
fn slot_contents() -> Vec<usize> {
    let mut v = Vec::new();
    for n in arc_swap::verif::nodes() {
        for s in n.fast.iter().chain(std::iter::once(&n.helping_slot)) {
            if *s != arc_swap::verif::NO_DEBT {
                v.push(*s);
            }
        }
    }
    v
}

/// Count equation at a quiescent point (C02): for every value of type tag `TAG`,
/// strong + slots holding it == owners the harness knows about. `owners` maps label -> number of
/// user-visible owners (containers storing it + handles + guards).
pub fn check_counts<const TAG: u32>(owners: &HashMap<u64, usize>, whence: &str) {
    if rt::draining() {
        return;
    }
    let slots = slot_contents();
    for (label, addr, live, destroyed) in reg(|r| r.all()) {
        let tag_ok = reg(|r| match r.lookup(addr) {
            varc::Lookup::Live(id) | varc::Lookup::Dead(id) => r.tag(id) == TAG && r.label(id) == label,
            _ => false,
        });
        if !tag_ok {
            continue; // retired (address reused) or other type
        }
        let expect = *owners.get(&label).unwrap_or(&0);
        let in_slots = slots.iter().filter(|&&s| s == addr).count();
        if live {
            let strong = varc::peek_strong_at::<TAG>(addr);
            if expect == 0 {
                rt::violation(
                    &tag("C02"),
                    "count",
                    format!("{}: value #{} has no owner left but is still alive (count {}, {} debt slot(s)): leaked reference", whence, label, strong, in_slots),
                );
                return;
            }
            if strong + in_slots != expect {
                rt::violation(
                    &tag("C02"),
                    "count",
                    format!(
                        "{}: value #{} has count {} plus {} debt slot(s) but {} owner(s) (containers + handles + guards)",
                        whence, label, strong, in_slots, expect
                    ),
                );
                return;
            }
        } else {
            if expect != 0 {
                rt::violation("C01", "poison", format!("{}: value #{} is destroyed but still has {} owner(s)", whence, label, expect));
                return;
            }
            if destroyed != 1 {
                rt::violation("C02", "count", format!("{}: value #{} was destroyed {} times", whence, label, destroyed));
                return;
            }
            if in_slots != 0 {
                rt::violation("C02", "slots", format!("{}: destroyed value #{} still sits in {} debt slot(s)", whence, label, in_slots));
                return;
            }
        }
    }
}

/// End-of-execution oracle, run on the controller after every model thread is gone: everything
/// the harness created has been destroyed exactly once, every slot is empty, every control word
/// idle, no writer reservation left, every node released. Returns a (property, oracle, message).
pub fn final_state_violation(expect_all_dead: bool) -> Option<(String, String, String)> {
    if expect_all_dead {
        for (label, _addr, live, destroyed) in reg(|r| r.all()) {
            if live {
                return Some((tag("C02"), "leak".into(), format!("value #{} is still alive after every owner is gone (leaked reference)", label)));
            }
            if destroyed != 1 {
                return Some(("C02".into(), "count".into(), format!("value #{} was destroyed {} times", label, destroyed)));
            }
        }
    }
    let nodes = arc_swap::verif::nodes();
    for (i, n) in nodes.iter().enumerate() {
        for (k, s) in n.fast.iter().enumerate() {
            if *s != arc_swap::verif::NO_DEBT {
                return Some((tag("C02"), "slots".into(), format!("fast slot {} of node {} is still occupied ({:#x}) after all guards are gone", k, i, s)));
            }
        }
        if n.helping_slot != arc_swap::verif::NO_DEBT {
            return Some(("C02".into(), "slots".into(), format!("helping slot of node {} is still occupied ({:#x})", i, n.helping_slot)));
        }
        if n.control != 0 {
            return Some(("C02".into(), "slots".into(), format!("control word of node {} is not idle ({:#x}) at quiescence", i, n.control)));
        }
        if n.active_writers != 0 {
            return Some(("C02".into(), "slots".into(), format!("node {} still counts {} active writer(s) at quiescence", i, n.active_writers)));
        }
        if n.in_use == arc_swap::verif::IN_USE_USED {
            return Some(("C11".into(), "nodes".into(), format!("node {} is still owned although every thread has exited", i)));
        }
    }
    // Every node owns exactly one hand-over envelope. Two nodes owning the same one means that
    // two helpers will write their replacement pointers into the same cell: the next reader
    // helped by both can be handed a pointer nobody counted (and the other count leaks), or the
    // value a helper loaded from another container.
    let offers = arc_swap::verif::space_offers();
    for i in 0..offers.len() {
        for j in i + 1..offers.len() {
            if offers[i] != 0 && offers[i] == offers[j] {
                return Some((
                    "C01,C02,C03,C12".into(),
                    "envelope".into(),
                    format!("nodes {} and {} both own the hand-over envelope {:#x} at quiescence (one envelope was lost, one is shared)", i, j, offers[i]),
                ));
            }
        }
    }
    None
}

/// Number of debt nodes right now.
pub fn node_count() -> usize {
    let n = arc_swap::verif::nodes().len();
    world(|w| {
        if n > w.max_nodes {
            w.max_nodes = n;
        }
    });
    n
}

/// Give the node fields readable names in traces (replay mode).
pub fn name_nodes() {
    if !rt::tracing() {
        return;
    }
    rt::name_addr(arc_swap::verif::list_head_addr(), "LIST_HEAD".into());
    let nodes = arc_swap::verif::nodes();
    let n = nodes.len();
    for (i, node) in nodes.iter().enumerate() {
        for (name, addr) in &node.fields {
            rt::name_addr(*addr, format!("node{}.{}", n - 1 - i, name));
        }
    }
}
