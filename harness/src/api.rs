//! Recorded, step-bracketed wrappers around the public API of arc-swap, as used by the engine
//! harnesses. Every wrapper logs a call record (thread, identities, engine stamps, own steps).

use std::sync::Arc;

use arc_swap::strategy::{CaS, Strategy};
use arc_swap::{ArcSwapAny, Guard};
use arc_swap_verif_rt as rt;

use crate::varc::VArc;
use crate::world::{record, CallRec, Kind};

pub type V = VArc<1>;
pub type V2 = VArc<2>;

pub const SLOTS: usize = rt::cfg::DEBT_SLOT_CNT;
/// C08: absolute cap on the caller's own steps in one load (generous against refactoring and the
/// node-list walk of a first use with up to 4 nodes: observed maximum 25; the
/// unmodified fast path takes 4-5, the fallback about 12, plus the slot scan).
pub const LOAD_CAP: u64 = 3 * SLOTS as u64 + 40;
/// C09: cap on the caller's own steps in one write-side call (the unmodified walk is at most
/// 14 steps per node plus one help; harnesses have at most 5 nodes and rcu/cas retry a few times).
pub const WRITE_CAP: u64 = 60 + 40 * 6;
pub const DROP_CAP: u64 = 24;

pub trait Strat: Strategy<V> + CaS<V> + Default + Send + Sync + 'static {
    const NAME: &'static str;
}
impl Strat for arc_swap::DefaultStrategy {
    const NAME: &'static str = "default";
}
#[allow(deprecated)]
impl Strat for arc_swap::strategy::test_strategies::FillFastSlots {
    const NAME: &'static str = "nofast";
}

/// The lock-based reference strategy (internal to the crate, used as an oracle by its own tests);
/// its RwLock is the engine-aware shim, so it can be explored like the others.
impl Strat for rt::sync::RwLock<()> {
    const NAME: &'static str = "rwlock";
}

/// A container under test with a small id used in histories.
pub struct Cont<S: Strat> {
    pub sw: ArcSwapAny<V, S>,
    pub id: u8,
}

impl<S: Strat> Cont<S> {
    pub fn new(id: u8, initial: V) -> Arc<Self> {
        let label = initial.peek_label();
        crate::world::world(|w| {
            w.initial.insert(id, label);
        });
        Arc::new(Cont { sw: ArcSwapAny::with_strategy(initial, S::default()), id })
    }
}

fn tid() -> usize {
    rt::current_tid().unwrap_or(0)
}

/// Invocation side of a recorded call.
pub struct Begin {
    start: u64,
    stale: u32,
    vc: rt::VC,
}

pub fn begin(name: &'static str, prop: &'static str, cap: u64) -> Begin {
    let b = Begin { start: rt::stamp(), stale: rt::my_stale_reads(), vc: rt::my_clock() };
    rt::call_begin(name, prop, cap);
    b
}

pub fn finish(b: Begin, container: u8, kind: Kind, cur: u64, new: u64, ret: u64) {
    let steps = rt::call_end();
    record(CallRec {
        tid: tid(),
        container,
        kind,
        cur,
        new,
        ret,
        start: b.start,
        end: rt::stamp(),
        steps,
        stale: rt::my_stale_reads() - b.stale,
        start_vc: b.vc,
        end_vc: rt::my_clock(),
    });
}

pub fn load<S: Strat>(c: &Cont<S>) -> Guard<V, S> {
    let b = begin("load", "C08", LOAD_CAP);
    let g = c.sw.load();
    finish(b, c.id, Kind::Load, 0, 0, g.peek_label());
    g
}

pub fn load_full<S: Strat>(c: &Cont<S>) -> V {
    let b = begin("load_full", "C08", LOAD_CAP);
    let v = c.sw.load_full();
    finish(b, c.id, Kind::LoadFull, 0, 0, v.peek_label());
    v
}

pub fn store<S: Strat>(c: &Cont<S>, v: V) {
    let new = v.peek_label();
    let b = begin("store", "C09", WRITE_CAP);
    c.sw.store(v);
    finish(b, c.id, Kind::Store, 0, new, 0);
}

pub fn swap<S: Strat>(c: &Cont<S>, v: V) -> V {
    let new = v.peek_label();
    let b = begin("swap", "C09", WRITE_CAP);
    let old = c.sw.swap(v);
    finish(b, c.id, Kind::Swap, 0, new, old.peek_label());
    old
}

pub fn cas<S: Strat>(c: &Cont<S>, cur: &V, new: V) -> Guard<V, S> {
    let (curl, newl) = (cur.peek_label(), new.peek_label());
    let b = begin("compare_and_swap", "C09", WRITE_CAP);
    let g = c.sw.compare_and_swap(cur, new);
    finish(b, c.id, Kind::Cas, curl, newl, g.peek_label());
    g
}

/// rcu with a closure that derives the new value's label from the old one.
pub fn rcu<S: Strat>(c: &Cont<S>, mut f: impl FnMut(&V) -> V) -> V {
    let last_new = std::cell::Cell::new(0u64);
    let attempts = std::cell::Cell::new(0u64);
    let b = begin("rcu", "C09", WRITE_CAP);
    let old = c.sw.rcu(|v: &V| {
        attempts.set(attempts.get() + 1);
        let n = f(v);
        last_new.set(n.peek_label());
        n
    });
    let ret = old.peek_label();
    finish(b, c.id, Kind::Rcu, ret, last_new.get(), ret);
    crate::world::observe(1000 + attempts.get());
    old
}

pub fn drop_guard<S: Strat>(g: Guard<V, S>) {
    rt::call_begin("drop(guard)", "C09", DROP_CAP);
    drop(g);
    rt::call_end();
}

pub fn guard_into_inner<S: Strat>(g: Guard<V, S>) -> V {
    rt::call_begin("Guard::into_inner", "C09", DROP_CAP);
    let v = Guard::into_inner(g);
    rt::call_end();
    v
}

pub fn drop_value(v: V) {
    rt::call_begin("drop(value)", "C09", DROP_CAP);
    drop(v);
    rt::call_end();
}

/// Consume the container (all other references to the Arc must be gone).
pub fn into_inner<S: Strat>(c: Arc<Cont<S>>) -> V {
    let c = match Arc::try_unwrap(c) {
        Ok(c) => c,
        Err(_) => panic!("harness bug: container still shared"),
    };
    rt::call_begin("into_inner", "C09", WRITE_CAP);
    let v = c.sw.into_inner();
    rt::call_end();
    v
}

pub fn drop_container<S: Strat>(c: Arc<Cont<S>>) {
    let c = match Arc::try_unwrap(c) {
        Ok(c) => c,
        Err(_) => panic!("harness bug: container still shared"),
    };
    rt::call_begin("drop(container)", "C09", WRITE_CAP);
    drop(c);
    rt::call_end();
}

/// Read a value through a handle and check it is what the call record said.
///
/// Handles handed back by write operations (swap / compare_and_swap / rcu / into_inner results and
/// handles kept until the container is gone) are the subject of C04: whatever goes wrong while
/// using one of them also counts for C04.
pub fn use_value(v: &V, expect_label: u64, how: &str) {
    let returned = how.contains("result") || how.contains("kept handle") || how.contains("after the container is gone");
    if returned {
        let old = rt::context_tag();
        let mut t = old.clone();
        if !t.split(',').any(|x| x == "C04") {
            if !t.is_empty() {
                t.push(',');
            }
            t.push_str("C04");
        }
        rt::set_context_tag(&t);
        use_value_inner(v, expect_label, how);
        rt::set_context_tag(&old);
    } else {
        use_value_inner(v, expect_label, how);
    }
}

fn use_value_inner(v: &V, expect_label: u64, how: &str) {
    let got = v.get();
    if got != expect_label && !rt::draining() {
        rt::violation(
            "C10",
            "snapshot",
            format!("{}: the handle denotes value #{} but reading through it gives #{}", how, expect_label, got),
        );
    }
}
