//! The table of harness instances.

use std::sync::Arc;

use arc_swap::DefaultStrategy;
use arc_swap_verif_rt as rt;

use crate::api::Strat;
use crate::h_core::{self, RwCfg, WriteOp::*};
use crate::runner::Inst;
use crate::varc::AllocMode::{self, *};

#[allow(deprecated)]
type NoFast = arc_swap::strategy::test_strategies::FillFastSlots;

fn inst(
    name: String,
    props: &[&'static str],
    mode: AllocMode,
    size: u8,
    alphabet: &'static str,
    body: impl Fn() + Send + Sync + 'static,
) -> Inst {
    Inst {
        name,
        props: props.to_vec(),
        mode,
        body: Arc::new(body),
        policy: rt::Policy::Preemption,
        expect_all_dead: true,
        tls_reverse: false,
        size,
        alphabet,
    }
}

fn mode_name(m: AllocMode) -> &'static str {
    match m {
        Fresh => "fresh",
        Reuse => "reuse",
    }
}

fn rw_family<S: Strat>(out: &mut Vec<Inst>, fill: bool) {
    let path = if S::NAME == "nofast" { "nofast" } else if fill { "full" } else { "fast" };
    for mode in [Fresh, Reuse] {
        let m = mode_name(mode);
        let core = &["C01", "C02", "C03", "C07", "C08", "C09", "C13"];
        out.push(inst(format!("rw1:{}:{}", path, m), core, mode, 1, "R{load,deref,drop} || W{store}", move || {
            h_core::rw::<S>(&RwCfg { readers: 1, loads: 1, fill, writers: vec![vec![Store]], consume: false })
        }));
        out.push(inst(format!("rw1b:{}:{}", path, m), core, mode, 2, "R{load,deref,drop,load_full,drop} || W{store,store}", move || {
            h_core::rw::<S>(&RwCfg { readers: 1, loads: 2, fill, writers: vec![vec![Store, Store]], consume: false })
        }));
        out.push(inst(format!("rw2:{}:{}", path, m), core, mode, 3, "R1{load..} || R2{load..} || W{store}", move || {
            h_core::rw::<S>(&RwCfg { readers: 2, loads: 1, fill, writers: vec![vec![Store]], consume: false })
        }));
        out.push(inst(
            format!("ww:{}:{}", path, m),
            &["C01", "C02", "C03", "C04", "C07", "C09", "C13"],
            mode,
            3,
            "R{load,deref,drop} || W1{store} || W2{swap, keep result}; into_inner at the end",
            move || h_core::rw::<S>(&RwCfg { readers: 1, loads: 1, fill, writers: vec![vec![Store], vec![Swap]], consume: true }),
        ));
    }
}

pub fn all() -> Vec<Inst> {
    let mut v = Vec::new();
    rw_family::<DefaultStrategy>(&mut v, false);
    rw_family::<DefaultStrategy>(&mut v, true);
    rw_family::<NoFast>(&mut v, false);
    v
}
