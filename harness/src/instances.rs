//! The table of harness instances.

use std::sync::Arc;

use arc_swap::DefaultStrategy;
use arc_swap_verif_rt as rt;

use crate::api::Strat;
use crate::h_core::{self, RwCfg, WriteOp::*};
use crate::h_more::{self, CasKind, RcuKind};
use crate::runner::Inst;
use crate::varc::AllocMode::{self, *};

#[allow(deprecated)]
type NoFast = arc_swap::strategy::test_strategies::FillFastSlots;

/// The Option-container family, (preemptions, free placements of complete writer calls): one
/// preemption with one placement and the null A-B-A (two placements, no preemption) on every
/// change; one more placement each in the thorough tier.
const PK_QUICK_OPT: [(u32, u32); 2] = [(1, 1), (0, 2)];
const PK_THOROUGH_OPT: [(u32, u32); 2] = [(1, 2), (0, 3)];

fn inst(
    name: String,
    props: &[&'static str],
    mode: AllocMode,
    size: u8,
    alphabet: &'static str,
    body: impl Fn() + Send + Sync + 'static,
) -> Inst {
    Inst {
        name,
        props: props.to_vec(),
        mode,
        body: Arc::new(body),
        k: 0,
        m3l_stale: None,
        no_ship: false,
        bounds_quick: None,
        bounds_thorough: None,
        pk_quick: Vec::new(),
        pk_thorough: Vec::new(),
        p_with_k: None,
        thorough_only: false,
        expect_all_dead: true,
        tls_reverse: false,
        size,
        alphabet,
    }
}

/// Names must not depend on the build configuration (the master of one build drives workers of
/// the other): guard counts are spelled symbolically.
fn gname(g: usize) -> String {
    let s = crate::api::SLOTS;
    if g == s {
        "S".to_string()
    } else if g == s + 1 {
        "S1".to_string()
    } else if g == s + 2 {
        "S2".to_string()
    } else {
        g.to_string()
    }
}

fn mode_name(m: AllocMode) -> &'static str {
    match m {
        Fresh => "fresh",
        Reuse => "reuse",
    }
}

fn rw_family<S: Strat>(out: &mut Vec<Inst>, fill: bool) {
    let path = if S::NAME == "nofast" { "nofast" } else if S::NAME == "rwlock" { "rwlock" } else if fill { "full" } else { "fast" };
    for mode in [Fresh, Reuse] {
        let m = mode_name(mode);
        let core = &["C01", "C02", "C03", "C07", "C08", "C09", "C13"];
        out.push(inst(format!("rw1:{}:{}", path, m), core, mode, 1, "R{load,deref,drop} || W{store}", move || {
            h_core::rw::<S>(&RwCfg { readers: 1, loads: 1, fill, writers: vec![vec![Store]], consume: false })
        }));
        if mode == Fresh && path != "fast" {
            // Two loads against one store, three preemptions, no stale reads: a writer that read
            // the generation of the first load and comes back when the reader is inside its
            // second one (seeded C09-5).
            let mut x = inst(format!("rw1c_deep:{}", path), core, mode, 2, "R{load,deref,drop,load_full,drop} || W{store}, 4 (thorough: 5) preemptions, no stale reads", move || {
                h_core::rw::<S>(&RwCfg { readers: 1, loads: 2, fill, writers: vec![vec![Store]], consume: false })
            });
            x.pk_quick = vec![(4, 0)];
            x.pk_thorough = vec![(5, 0)];
            out.push(x);
        }
        out.push(inst(format!("rw1b:{}:{}", path, m), core, mode, 2, "R{load,deref,drop,load_full,drop} || W{store,store}", move || {
            h_core::rw::<S>(&RwCfg { readers: 1, loads: 2, fill, writers: vec![vec![Store, Store]], consume: false })
        }));
        out.push(inst(format!("rw2:{}:{}", path, m), core, mode, 3, "R1{load..} || R2{load..} || W{store}", move || {
            h_core::rw::<S>(&RwCfg { readers: 2, loads: 1, fill, writers: vec![vec![Store]], consume: false })
        }));
        if mode == Fresh && path == "nofast" {
            // The same three threads one preemption deeper, without stale reads: the schedules in
            // which a helper is itself helped inside its nested load and a third writer is cut
            // off between two nodes of its walk (seeded C02-3) need three preemptions.
            let mut x = inst(
                format!("ww_deep:{}", path),
                &["C01", "C02"],
                mode,
                3,
                "R{load,deref,drop} || W1{store} || W2{swap, keep result}, all on the fallback path, 3 preemptions",
                move || h_core::rw::<S>(&RwCfg { readers: 1, loads: 1, fill, writers: vec![vec![Store], vec![Swap]], consume: true }),
            );
            x.pk_quick = vec![(3, 0)];
            x.pk_thorough = vec![(3, 0)];
            out.push(x);
        }
        out.push(inst(
            format!("ww:{}:{}", path, m),
            &["C01", "C02", "C03", "C04", "C07", "C09", "C13"],
            mode,
            3,
            "R{load,deref,drop} || W1{store} || W2{swap, keep result}; into_inner at the end",
            move || h_core::rw::<S>(&RwCfg { readers: 1, loads: 1, fill, writers: vec![vec![Store], vec![Swap]], consume: true }),
        ));
    }
}

fn more_family<
    S: Strat
        + arc_swap::strategy::Strategy<crate::api::V2>
        + arc_swap::strategy::CaS<crate::api::V2>
        + arc_swap::strategy::Strategy<Option<crate::api::V>>
        + arc_swap::strategy::CaS<Option<crate::api::V>>,
>(
    out: &mut Vec<Inst>,
    fill: bool,
) {
    let path = if S::NAME == "nofast" { "nofast" } else if S::NAME == "rwlock" { "rwlock" } else if fill { "full" } else { "fast" };
    let slots = crate::api::SLOTS;
    for mode in [Fresh, Reuse] {
        let m = mode_name(mode);
        // guards held across writes: only meaningful without the filler trick
        if !fill {
            for g in [1usize, slots, slots + 1] {
                out.push(inst(
                    format!("held{}:{}:{}", gname(g), path, m),
                    &["C01", "C02", "C03", "C07", "C08", "C09", "C10", "C13"],
                    mode,
                    2,
                    "R holds g guards, then {load, deref all, release in chosen order, one via Guard::into_inner} || W{store}",
                    move || h_more::held::<S>(g, false),
                ));
            }
            out.push(inst(
                format!("heldSx2:{}:{}", path, m),
                &["C01", "C02", "C03", "C04", "C07", "C10"],
                mode,
                3,
                "R holds S guards, then {load, deref, release, into_inner} || W{store, store}",
                move || h_more::held::<S>(slots, true),
            ));
            for g in [1usize, slots + 1] {
                for into in [false, true] {
                    out.push(inst(
                        format!("consume{}{}:{}:{}", gname(g), if into { "i" } else { "d" }, path, m),
                        &["C01", "C02", "C04", "C07", "C09", "C10", "C13"],
                        mode,
                        1,
                        "R holds g guards {deref, drop / into_inner} || main{into_inner | drop(container)}",
                        move || h_more::consume::<S>(g, into),
                    ));
                }
            }
        }
        for (k, kn, size) in [(CasKind::VsReader, "reader", 2u8), (CasKind::Aba, "aba", 3), (CasKind::Two, "two", 3), (CasKind::Miss, "miss", 2)] {
            out.push(inst(
                format!("cas_{}:{}:{}", kn, path, m),
                &["C01", "C02", "C05", "C07", "C09", "C13"],
                mode,
                size,
                "C{compare_and_swap(a => n)} || {reader | store b; store a | second compare_and_swap | store}",
                move || h_more::cas_h::<S>(k, fill),
            ));
        }
        for (k, kn, size) in [
            (RcuKind::Two, "two", 3u8),
            (RcuKind::VsStore, "store", 3),
            (RcuKind::VsSwap, "swap", 3),
            (RcuKind::VsReader, "reader", 2),
            (RcuKind::Reentrant, "reentrant", 4),
        ] {
            out.push(inst(
                format!("rcu_{}:{}:{}", kn, path, m),
                &["C01", "C02", "C06", "C07", "C09", "C13"],
                mode,
                size,
                "T1{rcu(+1)} || {rcu(+1) | store | swap | reader}; reentrant closure",
                move || h_more::rcu_h::<S>(k, fill),
            ));
        }
        for (wa, share) in [(false, false), (true, false), (false, true)] {
            out.push(inst(
                format!("iso{}{}:{}:{}", if wa { "_wa" } else { "" }, if share { "_shared" } else { "" }, path, m),
                &["C01", "C02", "C07", "C12", "C13"],
                mode,
                if wa { 3 } else { 2 },
                "R{load A} || W{swap B} (|| WA{store A}); optionally one value shared by A and B",
                move || h_more::iso::<S>(fill, wa, share),
            ));
        }
        out.push(inst(
            format!("iso_ab:{}:{}", path, m),
            &["C01", "C03", "C12", "C13"],
            mode,
            1,
            "R{load A, load B (another pointee type)} || W{store A, store A}",
            move || h_more::iso_ab::<S>(fill),
        ));
        {
            let mut x = inst(
                format!("cas_adv:{}:{}", path, m),
                &["C02", "C04", "C05", "C09"],
                mode,
                2,
                "C{compare_and_swap(a => n)} with W{store b; store a} as complete calls in any gaps (A-B-A)",
                move || h_more::cas_adv::<S>(fill),
            );
            x.k = 2;
            x.p_with_k = Some(0);
            out.push(x);
            let mut x = inst(
                format!("rcu_aba:{}:{}", path, m),
                &["C02", "C04", "C06", "C09"],
                mode,
                2,
                "T{rcu(+1)} with W{swap b; swap a (the same object again)} as complete calls in any gaps (A-B-A)",
                move || h_more::rcu_aba::<S>(fill),
            );
            x.k = 2;
            x.p_with_k = Some(0);
            out.push(x);
            let mut x = inst(
                format!("rcu_adv:{}:{}", path, m),
                &["C02", "C06", "C09"],
                mode,
                2,
                "T{rcu(+1)} with W{store 100; store 200} as complete calls in any gaps",
                move || h_more::rcu_adv::<S>(fill),
            );
            x.k = 2;
            x.p_with_k = Some(0);
            out.push(x);
        }
        if mode == Fresh {
            for r_first in [false, true] {
                let mut x = inst(
                    format!("help_adv{}:{}", if r_first { "r" } else { "" }, path),
                    &["C03", "C12"],
                    mode,
                    4,
                    "R{load, load} || W{store} interleaved step by step (3 preemptions) + W2{store} as one complete call placed anywhere; the reader's node is the newest / (help_advr) the oldest of the list",
                    move || h_more::help_adv::<S>(fill, r_first),
                );
                x.k = 1;
                x.p_with_k = Some(3);
                // the second list order doubles the cost and has not caught anything the first misses
                x.thorough_only = r_first;
                x.no_ship = r_first;
                out.push(x);
            }
        }
        if mode == Fresh {
            for tw in [false, true] {
                let mut x = inst(
                    format!("panic_dtor{}:{}", if tw { "2" } else { "" }, path),
                    &["C18"],
                    mode,
                    if tw { 3 } else { 2 },
                    "the destructor of a chosen value (initial / first writer's) panics wherever it runs: R{load, drop, load, drop} || W{store} (|| W2{store} as one complete call placed anywhere), every call under catch_unwind",
                    move || h_more::panic_dtor::<S>(fill, tw),
                );
                if tw {
                    x.k = 1;
                    x.p_with_k = Some(2);
                    // the helping hand-over only exists on the fallback paths
                    x.thorough_only = path == "fast";
                }
                out.push(x);
            }
            for tw in [false, true] {
                let mut x = inst(
                    format!("panic_cas{}:{}", if tw { "2" } else { "" }, path),
                    &["C18"],
                    mode,
                    if tw { 3 } else { 2 },
                    "as panic_dtor, but the first writer does compare_and_swap(raw pointer of the initial value => new)",
                    move || h_more::panic_dtor_g::<S>(fill, tw, false, true),
                );
                if tw {
                    x.k = 1;
                    x.p_with_k = Some(2);
                    x.thorough_only = path == "fast";
                }
                out.push(x);
            }
            if path == "fast" {
                let mut x = inst(
                    "panic_dtor2h:full".to_string(),
                    &["C18"],
                    mode,
                    3,
                    "as panic_dtor2, but the reader's fast slots hold S guards of the container itself (unpaid debts on the replaced value while a writer's walk is abandoned by a panic)",
                    move || h_more::panic_dtor_g::<S>(true, true, true, false),
                );
                x.k = 1;
                x.p_with_k = Some(2);
                out.push(x);
            }
            for at in 1..=3u64 {
                out.push(inst(
                    format!("panic_rcu{}:{}", at, path),
                    &["C18"],
                    mode,
                    2,
                    "rcu whose closure panics on its k-th attempt || W{store, store} forcing retries",
                    move || h_more::panic_rcu::<S>(fill, at),
                ));
            }
        }
        for (rcu, name) in [(false, "cas"), (true, "rcu")] {
            let mut x = inst(
                format!("opt_{}:{}:{}", name, path, m),
                &["C01", "C02", "C03", "C05", "C06", "C07"],
                mode,
                3,
                "Option container: R{load, drop, load_full} || C{compare_and_swap(None => c) | rcu} step by step; W{swap None; swap b; swap None} as complete calls placed anywhere",
                move || h_more::opt_h::<S>(fill, rcu),
            );
            x.k = 3;
            x.pk_quick = PK_QUICK_OPT.to_vec();
            x.pk_thorough = PK_THOROUGH_OPT.to_vec();
            out.push(x);
        }
        out.push(inst(
            format!("serde_conc:{}:{}", path, m),
            &["C20"],
            mode,
            2,
            "T{serialize the container, twice} || W{store, store}",
            move || h_more::serde_conc::<S>(fill),
        ));
        out.push(inst(
            format!("cache_conc:{}:{}", path, m),
            &["C16"],
            mode,
            2,
            "W{store, store, flag.store(Release)} || C{cache.load; if flag.load(Acquire) {cache.load}; cache.load}",
            move || h_more::cache_conc::<S>(fill, false),
        ));
        if mode == Reuse {
            out.push(inst(
                format!("cache_aba:{}:{}", path, m),
                &["C16"],
                mode,
                2,
                "W{store, store, store (reusing the address of the first), flag.store(Release)} || C{cache.load; cache.load; if flag.load(Acquire) {cache.load}; cache.load}",
                move || h_more::cache_conc::<S>(fill, true),
            ));
        }
        out.push(inst(
            format!("map_conc:{}:{}", path, m),
            &["C17"],
            mode,
            1,
            "R{g = Map.load; deref; deref; drop; load; deref} || W{store, store}",
            move || h_more::map_conc::<S>(fill),
        ));
        out.push(inst(
            format!("iso_types:{}:{}", path, m),
            &["C01", "C12", "C13"],
            mode,
            2,
            "R{load A, load_full A} || W{store B, swap B} with B of another pointee type",
            move || h_more::iso_types::<S>(fill),
        ));
        out.push(inst(
            format!("wrap1:{}:{}", path, m),
            &["C13", "C01"],
            mode,
            2,
            "generation counter 1..3 transactions before its wrap; R{2 loads} || W{store}; later thread",
            move || h_more::wrap::<S>(1, 2, fill, true),
        ));
        out.push(inst(
            format!("wrap_nested:{}:{}", path, m),
            &["C13"],
            mode,
            2,
            "W (fast slots full, generation 1 before wrap){store, store} || R{load on the fallback path}: the wrap happens in the load W does while helping R",
            move || h_more::wrap_nested::<S>(fill),
        ));
        out.push(inst(
            format!("wrap_claim:{}:{}", path, m),
            &["C13", "C11"],
            mode,
            2,
            "R{2 loads, the first wraps the generation} || S{first use of the crate: load_full, S+1 guards}",
            move || h_more::wrap_claim::<S>(fill),
        ));
        if mode == Fresh {
            for kind in 0..3u8 {
                // 0: S loads twice; 1: S works on a container of its own; 2: S does a compare_and_swap
                let (two, with_cas) = (kind == 1, kind == 2);
                if kind != 0 && path != "nofast" {
                    continue;
                }
                let mut x = inst(
                    format!("churn_help{}:{}", ["", "2", "_cas"][kind as usize], path),
                    match kind {
                        0 => &["C11", "C03"],
                        1 => &["C12"],
                        _ => &["C05"],
                    },
                    mode,
                    4,
                    "T{load, exit} || W{store} || S{first use of the crate inside the race: store, load, load} (churn_help2: S on a container of its own; churn_help_cas: S{store, load_full, compare_and_swap}), 3 preemptions",
                    move || h_more::churn_help::<S>(fill, two, with_cas),
                );
                x.k = 0;
                x.p_with_k = Some(3);
                // quick tier: only on the fallback-only path (the cheapest of the three, and the one
                // in which every load is a helping transaction)
                x.thorough_only = path != "nofast";
                // `check_cooldown` must not act on a stale count of writers (seeded C11-2)
                if kind == 0 {
                    x.m3l_stale = Some(1);
                }
                x.no_ship = kind != 0;
                out.push(x);
            }
        }
        if mode == Fresh {
            out.push(inst(
                format!("wrap_nested3:{}", path),
                &["C13", "C01", "C03"],
                mode,
                3,
                "wrap_nested + T3{first use: store, load} starting inside the race (may claim the node the writer discarded in its nested load)",
                move || h_more::wrap_nested3::<S>(fill),
            ));
        }
        out.push(inst(
            format!("wrap2:{}:{}", path, m),
            &["C13"],
            mode,
            2,
            "generation counter 2 transactions before its wrap; R{3 loads} || W{store}",
            move || h_more::wrap::<S>(2, 3, fill, true),
        ));
    }
    if !fill {
        for g in [1usize, slots + 1] {
            for ww in [false, true] {
                out.push(inst(
                    format!("guard_life{}{}:{}", gname(g), if ww { "w" } else { "" }, path),
                    &["C01", "C02", "C07", "C08", "C10", "C11", "C13"],
                    Fresh,
                    if ww { 4 } else { 3 },
                    "T1 takes g guards and exits; T2 uses/drops them || T3 starts, claims the node, loads twice (|| W stores)",
                    move || h_more::guard_life::<S>(g, ww),
                ));
            }
        }
        out.push(inst(
            format!("map_life:{}", path),
            &["C17", "C10"],
            Fresh,
            2,
            "T1 takes a Map projection guard and exits; another thread derefs it twice and drops it || W{store}",
            move || h_more::map_life::<S>(),
        ));
        out.push(inst(
            format!("churn_seq:{}", path),
            &["C10", "C11", "C13"],
            Fresh,
            1,
            "3 threads strictly one after another, each {load, store, drop guard, exit}",
            move || h_more::churn_seq::<S>(3),
        ));
        out.push(inst(
            format!("churn_par:{}", path),
            &["C01", "C02", "C08", "C09", "C11", "C13"],
            Fresh,
            3,
            "T1{load, exit} || T2{first use: load_full} || W{store}",
            move || h_more::churn_par::<S>(),
        ));
        if path != "nofast" {
            out.push(inst(
                format!("migrate:{}", path),
                &["C01", "C02", "C07", "C10"],
                Fresh,
                3,
                "A{load g; spawn B(g); S x {load, drop}} || B{use g; drop g} || W{store}",
                move || h_more::migrate::<S>(fill),
            ));
        }
        {
            let mut x = inst(
                format!("churn_two:{}", path),
                &["C01", "C02", "C08", "C09", "C10", "C11", "C13"],
                Fresh,
                3,
                "T0{load, exit} done; X{first use: load, drop} || Y{first use: load, drop} || W{store}",
                move || h_more::churn_two::<S>(false, false),
            );
            // three first uses of the crate make long executions: one more stale read in the
            // thorough tier instead of one more preemption
            x.bounds_thorough = Some((2, 2, 1));
            out.push(x);
            let mut x = inst(
                format!("churn_two_rcu:{}", path),
                &["C06"],
                Fresh,
                3,
                "T0{load, exit} done; X{first use: rcu} || Y{first use: rcu} || W{rcu}",
                move || h_more::churn_two::<S>(true, false),
            );
            // three rcu loops with weak exchanges: spurious failures are enumerated elsewhere
            x.bounds_quick = Some((2, 1, 0));
            x.bounds_thorough = Some((2, 2, 0));
            out.push(x);
            let mut x = inst(
                format!("churn_two_map:{}", path),
                &["C17"],
                Fresh,
                3,
                "T0{load, exit} done; X{first use: Map.load, deref, deref, drop} || Y{the same} || W{store}",
                move || h_more::churn_two::<S>(false, true),
            );
            x.bounds_thorough = Some((2, 2, 1));
            out.push(x);
        }
        for ww in [false, true] {
            out.push(inst(
                format!("tls_gone{}:{}", if ww { "_w" } else { "" }, path),
                &["C01", "C02", "C11", "C13"],
                Fresh,
                if ww { 3 } else { 1 },
                "T{tls teardown; load; swap; drop; load_full} (|| W{store})",
                move || h_more::tls_gone::<S>(ww),
            ));
        }
        out.push(inst(
            format!("dtor_uses_container:{}", path),
            &["C11", "C13", "C18"],
            Fresh,
            1,
            "pointee destructor {load, store on another container} runs inside store, with and without TLS",
            move || h_more::dtor_uses_container::<S>(),
        ));
    }
}

fn adversary_family<S: Strat>(out: &mut Vec<Inst>, fill: bool) {
    let path = if S::NAME == "nofast" { "nofast" } else if fill { "full" } else { "fast" };
    let slots = crate::api::SLOTS;
    let gs: Vec<usize> = if fill { vec![0] } else { vec![0, 1, slots, slots + 1] };
    for g in gs {
        for k in 1..=4usize {
            let mut i = inst(
                format!("adv{}:{}:g{}", k, path, gname(g)),
                &["C08"],
                Fresh,
                2,
                "W{up to K complete stores placed by the adversary into every gap of the reader's calls} || R{load, load_full} holding g guards",
                move || h_more::adversary::<S>(k, g, fill),
            );
            i.k = k as u32;
            i.p_with_k = Some(0);
            out.push(i);
        }
    }
}

fn seq_engine_family(out: &mut Vec<Inst>) {
    for (s, name) in [(0u8, "default"), (1, "nofast")] {
        let mut x = inst(
            format!("seq_spurious:{}", name),
            &["C14", "C02"],
            Fresh,
            0,
            "one thread, four sequential API programs checked against the reference model; spurious failures of weak compare-exchange enumerated",
            move || h_more::seq_spurious(s),
        );
        x.expect_all_dead = false;
        out.push(x);
    }
}

pub fn all() -> Vec<Inst> {
    let mut v = Vec::new();
    seq_engine_family(&mut v);
    adversary_family::<DefaultStrategy>(&mut v, false);
    adversary_family::<DefaultStrategy>(&mut v, true);
    adversary_family::<NoFast>(&mut v, false);
    rw_family::<DefaultStrategy>(&mut v, false);
    rw_family::<DefaultStrategy>(&mut v, true);
    rw_family::<NoFast>(&mut v, false);
    more_family::<DefaultStrategy>(&mut v, false);
    more_family::<DefaultStrategy>(&mut v, true);
    more_family::<NoFast>(&mut v, false);
    // The lock-based reference strategy is internal to the crate ("no guarantees"); only C20
    // quantifies over it concurrently ("every strategy that can be default-constructed"), so only
    // the serialization harness runs with it. (Exploring its other operations reports a data
    // race in its compare_and_swap failure path — Relaxed failure ordering, then an increment —
    // which is outside every listed property.)
    type RwL = rt::sync::RwLock<()>;
    let mut rwl = Vec::new();
    more_family::<RwL>(&mut rwl, false);
    for mut x in rwl.into_iter().filter(|i| i.mode == Fresh && i.name.starts_with("serde_conc")) {
        x.props = vec!["C20"];
        v.push(x);
    }
    v
}
