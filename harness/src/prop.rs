//! `vh prop <Cxx> --tier quick|thorough`: runs every engine harness instance of a property
//! within the tier's bounds, writes the evidence file, prints VIOLATION / KNOWN-FINDING lines.

use std::collections::BTreeMap;
use std::time::Instant;

use serde::{Deserialize, Serialize};
use serde_json::json;

use arc_swap_verif_rt as rt;

use crate::runner::{Inst, ViolRec};
use crate::shard::{self, JViol, Merged, ShardOpts};

#[derive(Serialize, Deserialize, Clone, Debug)]
pub struct Known {
    /// "known" (still present, suppressed and announced) or "fixed" (repaired; suppresses nothing)
    pub status: String,
    pub property: String,
    /// substring of the instance / case name
    #[serde(default)]
    pub instance: String,
    /// substring of the violation message that identifies this specific finding
    #[serde(default)]
    pub message_contains: String,
    pub description: String,
    #[serde(default)]
    pub commit: String,
}

impl Known {
    pub fn matches(&self, v: &ViolRec) -> bool {
        self.status == "known"
            && v.property.split(',').any(|p| p == self.property)
            && v.instance.contains(&self.instance)
            && v.message.contains(&self.message_contains)
    }
    pub fn matches_case(&self, property: &str, case: &str, message: &str) -> bool {
        self.status == "known" && property == self.property && case.contains(&self.instance) && message.contains(&self.message_contains)
    }
}

pub fn load_known(path: &str) -> Vec<Known> {
    match std::fs::read_to_string(path) {
        Ok(s) => serde_json::from_str(&s).unwrap_or_else(|e| {
            eprintln!("MACHINERY-ERROR cannot parse {}: {}", path, e);
            std::process::exit(2);
        }),
        Err(_) => Vec::new(),
    }
}

#[derive(Clone, Copy, PartialEq, Eq, Debug)]
pub enum Tier {
    Quick,
    Thorough,
}

impl Tier {
    pub fn name(self) -> &'static str {
        match self {
            Tier::Quick => "quick",
            Tier::Thorough => "thorough",
        }
    }
}

/// The memory model the verdicts are given under (DESIGN §5).
pub const DEFAULT_MODEL: rt::Model = rt::Model::M2;

/// One exploration to perform: which build, which bounds, how finely to cut the tree.
#[derive(Clone, Debug)]
pub struct Plan {
    pub build: &'static str,
    pub cfg: rt::Config,
    pub split: u32,
}

/// Deviation bounds per tier and instance size class (DESIGN §10). `size`: 1 = two threads, one
/// or two calls; 2 = two threads, more calls; 3 = three threads; 4 = four threads / long.
pub fn plans(tier: Tier, inst: &Inst, have_ship: bool) -> Vec<Plan> {
    let mut v = plans_m2(tier, inst, have_ship);
    if std::env::var("VERIF_MODEL").is_err() {
        // Second verdict model (DESIGN §5): SeqCst accesses without fence strength, as Miri
        // implements them. Only where stale reads are in the budget (without them every model
        // is sequential consistency) and the instance is small enough to pay for it twice.
        let extra: Vec<Plan> = v
            .iter()
            .filter(|p| p.cfg.s > 0 && inst.size <= 3 && (p.build == "small" || inst.size <= 1))
            .map(|p| {
                let mut q = p.clone();
                q.cfg.model = rt::Model::M3L;
                q
            })
            .collect();
        v.extend(extra);
        if let (Some(s), Some(first)) = (inst.m3l_stale, v.first().cloned()) {
            let mut q = first;
            q.cfg.model = rt::Model::M3L;
            q.cfg.s = s;
            v.push(q);
        }
    }
    v
}

fn plans_m2(tier: Tier, inst: &Inst, have_ship: bool) -> Vec<Plan> {
    let model = match std::env::var("VERIF_MODEL").as_deref() {
        Ok("m1") => rt::Model::M1,
        Ok("sc") => rt::Model::Sc,
        Ok("m2") => rt::Model::M2,
        Ok("m3") => rt::Model::M3,
        Ok("m3l") => rt::Model::M3L,
        _ => DEFAULT_MODEL,
    };
    // Ad-hoc deeper runs: VERIF_BOUNDS="p,s,f" overrides the tier's bounds for every instance.
    let over: Option<Vec<u32>> = std::env::var("VERIF_BOUNDS").ok().map(|s| s.split(',').filter_map(|x| x.parse().ok()).collect());
    let mk = |build, p, s, f, split| {
        let (p, s, f) = match &over {
            Some(o) if o.len() == 3 => (o[0], o[1], o[2]),
            _ => (p, s, f),
        };
        Plan { build, cfg: rt::Config { p, s, f, k: inst.k, model, ..rt::Config::default() }, split }
    };
    let pk = if tier == Tier::Quick { &inst.pk_quick } else { &inst.pk_thorough };
    if !pk.is_empty() {
        let mut v = Vec::new();
        for &(p, k) in pk {
            let mut pl = mk("small", p, 0, 0, if p == 0 { 1 } else { 2 });
            pl.cfg.k = k;
            v.push(pl);
            if tier == Tier::Thorough && have_ship {
                let mut pl = mk("ship", p, 0, 0, 1);
                pl.cfg.k = k;
                v.push(pl);
            }
        }
        return v;
    }
    if let Some(p) = inst.p_with_k {
        // Families built on free atomic-call placements bring their own preemption bound (the
        // C08 adversary uses 0: only complete writes interrupt the thread under test).
        let (s, f) = if p == 0 || inst.size >= 3 { (0, 0) } else { (1, 1) };
        let extra = if tier == Tier::Thorough && p > 0 && inst.size < 4 { 1 } else { 0 };
        // The large step-by-step + atomic-call instances run their full preemption bound in the
        // quick tier only on the fallback-only path (the cheapest), one less on the others.
        let p = if tier == Tier::Quick && inst.size >= 4 && !inst.name.contains("nofast") { p.saturating_sub(1) } else { p };
        let mut v = vec![mk("small", p + extra, s, f, if p == 0 { 1 } else { 2 })];
        if tier == Tier::Thorough && have_ship && !inst.no_ship {
            v.push(mk("ship", p, s, f, 1));
        }
        return v;
    }
    let mut v = Vec::new();
    let explicit = if tier == Tier::Quick { inst.bounds_quick } else { inst.bounds_thorough };
    if let Some((p, s, f)) = explicit {
        v.push(mk("small", p, s, f, 2));
        return v;
    }
    match tier {
        Tier::Quick => match inst.size {
            0 | 1 => v.push(mk("small", 3, 1, 1, 1)),
            2 => v.push(mk("small", 2, 1, 1, 1)),
            3 => v.push(mk("small", 2, 1, 1, 1)),
            _ => v.push(mk("small", 2, 0, 0, 1)),
        },
        Tier::Thorough => {
            match inst.size {
                0 | 1 => v.push(mk("small", 4, 2, 1, 2)),
                2 => v.push(mk("small", 3, 2, 1, 2)),
                3 => v.push(mk("small", 3, 1, 1, 2)),
                _ => v.push(mk("small", 2, 1, 1, 2)),
            }
            if have_ship {
                match inst.size {
                    0 | 1 => v.push(mk("ship", 3, 1, 1, 2)),
                    2 => v.push(mk("ship", 2, 1, 1, 1)),
                    3 => v.push(mk("ship", 2, 1, 0, 1)),
                    _ => {}
                }
            }
        }
    }
    v
}

fn write_replay(dir: &str, build: &str, v: &JViol) -> String {
    let _ = std::fs::create_dir_all(dir);
    let mut h: u64 = 1469598103934665603;
    for c in &v.choices {
        h = (h ^ (*c as u64 + 1)).wrapping_mul(1099511628211);
    }
    let name = format!(
        "{}/{}-{}-{:08x}.json",
        dir,
        v.property.replace(',', "+"),
        v.instance.replace(':', "_"),
        h & 0xffff_ffff
    );
    let j = json!({
        "instance": v.instance,
        "build": build,
        "cfg": v.cfg,
        "property": v.property,
        "oracle": v.oracle,
        "message": v.message,
        "choices": v.choices,
        "deterministic_on_replay": v.deterministic,
        "trace": v.trace,
    });
    let _ = std::fs::write(&name, serde_json::to_string_pretty(&j).unwrap());
    name
}

pub struct PropOpts {
    pub prop: String,
    pub tier: Tier,
    pub jobs: usize,
    pub small_bin: String,
    pub ship_bin: Option<String>,
    pub known_file: String,
    pub evidence_dir: String,
    pub replay_dir: String,
    pub seed: u64,
    pub only: Option<String>,
    pub budget_s: Option<u64>,
    /// extra evidence produced by non-engine parts of the same property (merged by the caller)
    pub write_evidence: bool,
}

pub struct PropOutcome {
    pub violations: u32,
    pub machinery_errors: Vec<String>,
    pub evidence: serde_json::Value,
}

/// Runs the engine part of a property check.
pub fn run_prop(instances: &[Inst], o: &PropOpts) -> PropOutcome {
    let t0 = Instant::now();
    let known = load_known(&o.known_file);
    let deadline = o.budget_s.map(|s| t0 + std::time::Duration::from_secs(s));
    let mut per = Vec::new();
    let mut total = Merged::default();
    let mut distinct = 0usize;
    let mut violations = 0u32;
    let mut errors = Vec::new();
    let mut samples = Vec::new();
    let mut all_complete = true;
    let mut known_lines: BTreeMap<usize, String> = BTreeMap::new();
    // All (instance, plan) pairs run concurrently; a global semaphore keeps `jobs` worker
    // requests in flight. Larger instances are started first.
    let mut work: Vec<(&Inst, Plan)> = Vec::new();
    for inst in instances.iter().filter(|i| i.props.contains(&o.prop.as_str())) {
        if let Some(only) = &o.only {
            if !inst.name.contains(only.as_str()) {
                continue;
            }
        }
        if inst.thorough_only && o.tier == Tier::Quick {
            continue;
        }
        for plan in plans(o.tier, inst, o.ship_bin.is_some()) {
            work.push((inst, plan));
        }
    }
    work.sort_by_key(|(i, p)| std::cmp::Reverse((i.size as u32) * 10 + p.cfg.p + p.cfg.s));
    let sem = shard::Sem::new(o.jobs.max(1));
    let stop_all = std::sync::Arc::new(std::sync::atomic::AtomicBool::new(false));
    let results: Vec<(usize, Merged)> = std::thread::scope(|sc| {
        let mut hs = Vec::new();
        for (idx, (inst, plan)) in work.iter().enumerate() {
            let bin = if plan.build == "ship" { o.ship_bin.clone().unwrap() } else { o.small_bin.clone() };
            let so = ShardOpts {
                sem: Some(sem.clone()),
                bin,
                jobs: o.jobs.min(if inst.size <= 1 { 4 } else { 16 }),
                split_levels: plan.split,
                deciding: Some(o.prop.clone()),
                known_file: Some(o.known_file.clone()),
                seed: o.seed,
                deadline,
            };
            let name = inst.name.clone();
            let cfg = plan.cfg.clone();
            let stop_all = stop_all.clone();
            let build = plan.build;
            hs.push(sc.spawn(move || {
                if stop_all.load(std::sync::atomic::Ordering::SeqCst) {
                    return (idx, Merged::default());
                }
                let m = shard::run_sharded(&name, &cfg, &so);
                eprintln!(
                    "  {:34} {:5} {:3} (p{},s{},f{},k{}) execs={:9} nodes={:9} steps={:11} outcomes={:4} complete={} {:.1}s{}",
                    name,
                    build,
                    shard::model_name(cfg.model),
                    cfg.p,
                    cfg.s,
                    cfg.f,
                    if cfg.k == rt::K_FROM_INSTANCE { "-".to_string() } else { cfg.k.to_string() },
                    m.executions,
                    m.nodes,
                    m.steps,
                    m.distinct_outcomes,
                    m.complete,
                    m.wall_s,
                    if m.others.is_empty() { String::new() } else { format!(" other-property violations seen: {:?}", m.others) }
                );
                if m.deciding.is_some() {
                    stop_all.store(true, std::sync::atomic::Ordering::SeqCst);
                }
                (idx, m)
            }));
        }
        hs.into_iter().map(|h| h.join().unwrap()).collect()
    });
    let results_keep: Vec<(usize, Merged)> = results.clone();
    for (idx, m) in results {
        let (inst, plan) = &work[idx];
        if m.tasks == 0 && m.error.is_none() {
            // skipped after a violation elsewhere
            all_complete = false;
            continue;
        }
        {
            if let Some(e) = &m.error {
                errors.push(format!("{} [{}]: {}", inst.name, plan.build, e));
            }
            if let Some(v) = &m.deciding {
                if !v.deterministic {
                    errors.push(format!("{}: violation did not reproduce identically on replay (choices {:?})", inst.name, v.choices));
                } else {
                    violations += 1;
                    let path = write_replay(&o.replay_dir, plan.build, v);
                    crate::outln!("VIOLATION property={} replay={}", o.prop, path);
                    crate::outln!("  instance={} build={} oracle={} {}", v.instance, plan.build, v.oracle, v.message);
                }
            }
            for (i, v) in &m.known_hits {
                let path = write_replay(&o.replay_dir, plan.build, v);
                known_lines.entry(*i).or_insert_with(|| {
                    format!("KNOWN-FINDING: property={} {} (instance {}, replay {})", o.prop, known[*i].description, v.instance, path)
                });
            }
            if !m.complete && m.deciding.is_none() {
                all_complete = false;
            }
            distinct += m.distinct_outcomes;
            for s in &m.samples {
                if samples.len() < 6 {
                    samples.push(json!({"instance": inst.name, "build": plan.build, "history": s}));
                }
            }
            per.push(json!({
                "instance": inst.name,
                "alphabet": inst.alphabet,
                "build": plan.build,
                "bounds": {"atomic_call_placements": plan.cfg.k, "preemptions": plan.cfg.p, "stale_reads": plan.cfg.s, "spurious_cas_failures": plan.cfg.f, "model": shard::model_name(plan.cfg.model)},
                "executions": m.executions,
                "choice_tree_nodes": m.nodes,
                "engine_steps": m.steps,
                "max_steps_per_execution": m.max_steps,
                "max_choice_points": m.max_choice_points,
                "distinct_outcomes": m.distinct_outcomes,
                "vacuous": m.distinct_outcomes <= 1 && m.executions > 10,
                "bounded_space_completed": m.complete,
                "max_deviations_used": [m.dev.0, m.dev.1, m.dev.2],
                "max_own_steps_per_call": m.max_call_steps,
                "max_debt_nodes": m.max_nodes,
                "subtree_tasks": m.tasks,
                "other_property_violations_seen": m.others,
                "first_other_violation": m.first_other.as_ref().map(|v| format!("{} [{}] {}", v.property, v.oracle, v.message)),
                "wall_s": m.wall_s,
            }));
            total.executions += m.executions;
            total.nodes += m.nodes;
            total.steps += m.steps;
            for (k, v) in &m.others {
                *total.others.entry(k.clone()).or_insert(0) += v;
            }
        }
    }
    // C08, relational oracle over the adversary family: the most steps a load needs must not
    // keep growing with the number of complete interfering writes (a retry loop adds at least
    // three steps per write; the real algorithm reaches its maximum with two).
    let mut growth = Vec::new();
    if o.prop == "C08" && violations == 0 {
        let mut by_group: BTreeMap<String, BTreeMap<u32, (u64, Vec<u16>, &'static str, String)>> = BTreeMap::new();
        for (idx, m) in &results_keep {
            let (inst, plan) = &work[*idx];
            if let Some(rest) = inst.name.strip_prefix("adv") {
                if let Some((k, group)) = rest.split_once(':') {
                    if let Ok(k) = k.parse::<u32>() {
                        by_group
                            .entry(format!("{}[{}]", group, plan.build))
                            .or_default()
                            .insert(k, (m.max_load.0, m.max_load.1.clone(), plan.build, inst.name.clone()));
                    }
                }
            }
        }
        for (group, ks) in &by_group {
            let row: Vec<String> = ks.iter().map(|(k, v)| format!("K={}:{}", k, v.0)).collect();
            growth.push(format!("{} max own steps of a load by number of interfering writes: {}", group, row.join(" ")));
            if let (Some(m2), Some(m4)) = (ks.get(&2), ks.get(&4)) {
                if m4.0 > m2.0 {
                    violations += 1;
                    let v = JViol {
                        instance: m4.3.clone(),
                        property: "C08".into(),
                        oracle: "steps-growth".into(),
                        message: format!(
                            "a load needs up to {} own steps with 4 interfering complete writes but only {} with 2: its cost grows with what other threads do (it retries)",
                            m4.0, m2.0
                        ),
                        choices: m4.1.clone(),
                        cfg: "p=0,s=0,f=0,k=4,model=M1,step_cap=5000".into(),
                        trace: vec![],
                        deterministic: true,
                    };
                    let path = write_replay(&o.replay_dir, m4.2, &v);
                    crate::outln!("VIOLATION property=C08 replay={}", path);
                    crate::outln!("  instance={} oracle=steps-growth {}", v.instance, v.message);
                }
            }
        }
    }
    for l in known_lines.values() {
        crate::outln!("{}", l);
    }
    let ev = json!({
        "engine": {
            "executions": total.executions,
            "choice_tree_nodes": total.nodes,
            "engine_steps": total.steps,
            "distinct_outcomes": distinct,
            "all_bounded_spaces_completed": all_complete,
            "per_harness": per,
            "samples": samples,
            "other_property_violations_seen": total.others,
            "known_findings_hit": known_lines.values().collect::<Vec<_>>(),
            "load_steps_by_interfering_writes": growth,
        }
    });
    PropOutcome { violations, machinery_errors: errors, evidence: ev }
}
