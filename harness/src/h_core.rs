//! Engine harnesses for the concurrent core: readers against writers on one container
//! (C01-C04, C07-C09), with every oracle switched on.

use std::collections::HashMap;
use std::sync::Arc;

use arc_swap::Guard;
use arc_swap_verif_rt as rt;

use crate::api::*;
use crate::world;

/// Thread prologue, run without alternatives: make sure the thread owns its debt node (the
/// properties speak about threads that already used the crate) and, for the *full* path, occupy
/// every fast slot with guards of the filler container so that the loads under test take the
/// fallback path.
pub fn prologue<S: Strat>(filler: &Cont<S>, fill: bool) -> Vec<Guard<V, S>> {
    let mut held = Vec::new();
    rt::quiet(|| {
        let g = filler.sw.load();
        drop(g);
        if fill {
            for _ in 0..SLOTS {
                held.push(filler.sw.load());
            }
        }
        world::name_nodes();
    });
    held
}

pub fn release<S: Strat>(held: Vec<Guard<V, S>>) {
    rt::quiet(|| drop(held));
}

/// Everything main does after the worker threads are gone: final read of each container, history
/// and count oracles, then dropping or consuming the containers and the handles it was given.
pub fn epilogue<S: Strat>(conts: Vec<Arc<Cont<S>>>, filler: Arc<Cont<S>>, kept: Vec<V>, consume: bool) {
    epilogue_p(conts, filler, kept, consume, "C03")
}

/// `hist_prop`: the property the history oracle decides in this harness.
pub fn epilogue_p<S: Strat>(conts: Vec<Arc<Cont<S>>>, filler: Arc<Cont<S>>, kept: Vec<V>, consume: bool, hist_prop: &str) {
    world::node_count();
    let mut owners: HashMap<u64, usize> = HashMap::new();
    let mut guards = Vec::new();
    for c in &conts {
        let g = load(c);
        let l = g.peek_label();
        use_value(&g, l, "final load");
        *owners.entry(l).or_insert(0) += 2; // the container and this guard
        world::check_write_chain(c.id, l);
        guards.push(g);
    }
    *owners.entry(world::world(|w| w.initial[&filler.id])).or_insert(0) += 1;
    for v in &kept {
        // Handles returned by write operations stay valid independently of the container.
        let l = v.peek_label();
        use_value(v, l, "kept handle");
        *owners.entry(l).or_insert(0) += 1;
    }
    world::check_linearizable(hist_prop);
    world::check_counts::<1>(&owners, "after all threads finished");
    for g in guards {
        drop_guard(g);
    }
    let mut finals = Vec::new();
    for c in conts {
        if consume {
            let v = into_inner(c);
            finals.push(v);
        } else {
            drop_container(c);
        }
    }
    // Handles outlive the container.
    for v in kept.iter().chain(finals.iter()) {
        let l = v.peek_label();
        use_value(v, l, "handle after the container is gone");
    }
    let mut owners: HashMap<u64, usize> = HashMap::new();
    *owners.entry(world::world(|w| w.initial[&filler.id])).or_insert(0) += 1;
    for v in kept.iter().chain(finals.iter()) {
        *owners.entry(v.peek_label()).or_insert(0) += 1;
    }
    world::check_counts::<1>(&owners, "after the containers are gone");
    for v in kept.into_iter().chain(finals.into_iter()) {
        drop_value(v);
    }
    rt::quiet(|| drop_container(filler));
}

#[derive(Clone, Copy, Debug, PartialEq, Eq)]
pub enum WriteOp {
    Store,
    Swap,
    Cas,
    Rcu,
}

/// One write of `new` (label) by the calling thread; returns the handle it got back, if any.
/// `expect_cur` is what a CAS uses as `current` (a handle the thread holds).
pub fn write<S: Strat>(c: &Cont<S>, op: WriteOp, new: u64, cur: Option<&V>) -> Option<V> {
    match op {
        WriteOp::Store => {
            store(c, V::new(new));
            None
        }
        WriteOp::Swap => {
            let old = swap(c, V::new(new));
            let l = old.peek_label();
            use_value(&old, l, "swap result");
            Some(old)
        }
        WriteOp::Cas => {
            let cur = cur.expect("cas needs a current handle");
            let g = cas(c, cur, V::new(new));
            let l = g.peek_label();
            use_value(&g, l, "compare_and_swap result");
            Some(guard_into_inner(g))
        }
        WriteOp::Rcu => {
            // Every attempt creates a distinct value (label new + 100 * attempt): results of
            // discarded attempts must never become visible.
            let attempt = std::cell::Cell::new(0u64);
            let old = rcu(c, |v: &V| {
                let l = v.peek_label();
                use_value(v, l, "value passed to the rcu closure");
                let a = attempt.get();
                attempt.set(a + 1);
                V::new(new + 100 * a)
            });
            let l = old.peek_label();
            use_value(&old, l, "rcu result");
            Some(old)
        }
    }
}

/// `readers` reader threads (each: `loads` loads, the first a guard that is dereferenced and
/// dropped, further ones load_full) against `writers` writer threads each doing `wops` in order.
/// Path: `fill` = readers hold all fast slots (full path).
pub struct RwCfg {
    pub readers: usize,
    pub loads: usize,
    pub fill: bool,
    pub writers: Vec<Vec<WriteOp>>,
    /// main keeps the handles returned by writers and uses them after the container is gone
    pub consume: bool,
}

pub fn rw<S: Strat>(cfg: &RwCfg) {
    // main does not touch the container before the threads are done (it must not own a node)
    let v1 = V::new(1);
    let initial = rt::quiet(|| v1.clone());
    let c = Cont::<S>::new(0, v1);
    let filler = Cont::<S>::new(9, V::new(90));
    let n = cfg.readers + cfg.writers.len();
    let mut rh = Vec::new();
    let mut wh = Vec::new();
    rt::quiet(|| {
        for _r in 0..cfg.readers {
            let (c, filler) = (c.clone(), filler.clone());
            let (loads, fill) = (cfg.loads, cfg.fill);
            rh.push(rt::spawn(move || {
                let held = prologue(&filler, fill);
                rt::quiet(|| rt::barrier(n));
                for i in 0..loads {
                    if i % 2 == 0 {
                        let g = load(&c);
                        let l = g.peek_label();
                        use_value(&g, l, "guard");
                        drop_guard(g);
                    } else {
                        let v = load_full(&c);
                        let l = v.peek_label();
                        use_value(&v, l, "load_full result");
                        drop_value(v);
                    }
                }
                release(held);
            }));
        }
        for (wi, ops) in cfg.writers.iter().enumerate() {
            let (c, filler) = (c.clone(), filler.clone());
            let ops = ops.clone();
            // Only a thread that does a compare_and_swap holds on to the initial value.
            let initial = if ops.contains(&WriteOp::Cas) { Some(initial.clone()) } else { None };
            let c04 = cfg.consume;
            wh.push(rt::spawn(move || {
                if c04 {
                    // in the harnesses that decide C04 whatever goes wrong inside a write
                    // operation (or with what it hands back) counts for C04
                    rt::set_thread_tag("C04");
                }
                let held = prologue(&filler, false);
                rt::quiet(|| rt::barrier(n));
                let mut got = Vec::new();
                for (k, op) in ops.iter().enumerate() {
                    let label = 10 * (wi as u64 + 1) + k as u64 + 1;
                    if let Some(v) = write(&c, *op, label, initial.as_ref()) {
                        got.push(v);
                    }
                }
                release(held);
                rt::quiet(|| drop(initial));
                got
            }));
        }
        drop(initial);
    });
    rt::join_all();
    for h in rh {
        h.join();
    }
    let mut kept = Vec::new();
    for h in wh {
        if let Some(v) = h.join() {
            kept.extend(v);
        }
    }
    epilogue(vec![c], filler, kept, cfg.consume);
}
