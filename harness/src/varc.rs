//! Instrumented reference-counted pointer implementing `arc_swap::RefCnt`.
//!
//! Mirrors `std::sync::Arc`: clone = `fetch_add(1, Relaxed)`, drop = `fetch_sub(1, Release)` and
//! on the last reference `fence(Acquire)` + destruction — all on *engine* atomics, so the count
//! takes part in scheduling, views and happens-before exactly like Arc's does. On top of that:
//!
//! * objects are never really freed during an execution; destruction poisons them and any later
//!   inc/dec/deref is a C01 violation;
//! * every address is looked up in a registry before memory is touched, so a wild or wrongly
//!   typed pointer is an oracle failure instead of a crash;
//! * the payload sits in a race cell: written by the creator, read through handles, written by
//!   the destructor (C07);
//! * allocator mode `reuse` gives a new object the address of the most recently destroyed one
//!   of the same type (forced ABA).

use std::cell::{Cell, RefCell};
use std::collections::HashMap;
use std::sync::atomic::Ordering::*;

use arc_swap::RefCnt;
use arc_swap_verif_rt as rt;
use rt::atomic::{fence, AtomicUsize};
use rt::cell::{RaceTag, VCell};

#[repr(C, align(8))]
pub struct VInner<const TAG: u32> {
    strong: AtomicUsize,
    id: Cell<u32>,
    payload: VCell<u64>,
    /// The header (the count) is initialised by a plain write of the creator, like ArcInner:
    /// every later count operation must happen-after it.
    header: RaceTag,
}

pub struct VArc<const TAG: u32> {
    ptr: *mut VInner<TAG>,
}

// Model threads are coroutines of one OS thread; the markers are what a real Arc<T: Send+Sync>
// would have and are needed by the crate's bounds.
unsafe impl<const TAG: u32> Send for VArc<TAG> {}
unsafe impl<const TAG: u32> Sync for VArc<TAG> {}

#[derive(Clone, Copy, PartialEq, Eq, Debug)]
pub enum AllocMode {
    Fresh,
    Reuse,
}

#[derive(Clone, Copy, PartialEq, Eq, Debug)]
enum ObjState {
    Live,
    Dead,
    /// Dead and its memory handed to a newer object (reuse mode).
    Retired,
}

struct Obj {
    addr: usize,
    tag: u32,
    label: u64,
    state: ObjState,
    destroyed: u32,
}

pub struct Registry {
    objs: Vec<Obj>,
    by_addr: HashMap<usize, u32>,
    arena: Vec<(usize, unsafe fn(usize))>,
    free: HashMap<u32, Vec<usize>>,
    pub mode: AllocMode,
    /// Called (with the label) right after an object was destroyed; user code running inside
    /// the library (C11, C18).
    pub on_destroy: Option<std::rc::Rc<dyn Fn(u64)>>,
    /// Panic in the k-th clone from now (1 = the next one).
    pub clone_panic_in: Option<u32>,
    pub clones: u64,
}

thread_local! {
    static REG: RefCell<Registry> = RefCell::new(Registry {
        objs: Vec::new(),
        by_addr: HashMap::new(),
        arena: Vec::new(),
        free: HashMap::new(),
        mode: AllocMode::Fresh,
        on_destroy: None,
        clone_panic_in: None,
        clones: 0,
    });
}

pub fn reg<R>(f: impl FnOnce(&mut Registry) -> R) -> R {
    REG.with(|r| f(&mut r.borrow_mut()))
}

unsafe fn free_inner<const TAG: u32>(p: usize) {
    drop(Box::from_raw(p as *mut VInner<TAG>));
}

/// Forget everything and free the memory of the previous execution.
pub fn reset(mode: AllocMode) {
    reg(|r| {
        for (p, f) in r.arena.drain(..) {
            unsafe { f(p) };
        }
        r.objs.clear();
        r.by_addr.clear();
        r.free.clear();
        r.mode = mode;
        r.on_destroy = None;
        r.clone_panic_in = None;
        r.clones = 0;
    })
}

#[derive(Clone, Copy, Debug, PartialEq, Eq)]
pub enum Lookup {
    Live(u32),
    Dead(u32),
    Unknown,
}

impl Registry {
    pub fn lookup(&self, addr: usize) -> Lookup {
        match self.by_addr.get(&addr) {
            None => Lookup::Unknown,
            Some(&id) => match self.objs[id as usize].state {
                ObjState::Live => Lookup::Live(id),
                _ => Lookup::Dead(id),
            },
        }
    }
    pub fn label_of_addr(&self, addr: usize) -> Option<u64> {
        self.by_addr.get(&addr).map(|&id| self.objs[id as usize].label)
    }
    pub fn label(&self, id: u32) -> u64 {
        self.objs[id as usize].label
    }
    pub fn tag(&self, id: u32) -> u32 {
        self.objs[id as usize].tag
    }
    /// (label, addr, live, destroyed count) of every object created in this execution.
    pub fn all(&self) -> Vec<(u64, usize, bool, u32)> {
        self.objs
            .iter()
            .map(|o| (o.label, o.addr, o.state == ObjState::Live, o.destroyed))
            .collect()
    }
}

fn describe(addr: usize) -> String {
    reg(|r| match r.by_addr.get(&addr) {
        Some(&id) => format!("value #{} (object {})", r.objs[id as usize].label, id),
        None => format!("unknown address {:#x}", addr),
    })
}

impl<const TAG: u32> VArc<TAG> {
    /// A new value with the given label (its payload), count 1.
    pub fn new(label: u64) -> Self {
        let reused = reg(|r| if r.mode == AllocMode::Reuse { r.free.get_mut(&TAG).and_then(|v| v.pop()) } else { None });
        let fresh = VInner::<TAG> { strong: AtomicUsize::new(1), id: Cell::new(0), payload: VCell::new(label), header: RaceTag::new() };
        let ptr = match reused {
            Some(addr) => {
                let p = addr as *mut VInner<TAG>;
                unsafe { std::ptr::write(p, fresh) };
                p
            }
            None => {
                let p = Box::into_raw(Box::new(fresh));
                reg(|r| r.arena.push((p as usize, free_inner::<TAG>)));
                p
            }
        };
        let id = reg(|r| {
            let id = r.objs.len() as u32;
            if let Some(&old) = r.by_addr.get(&(ptr as usize)) {
                r.objs[old as usize].state = ObjState::Retired;
            }
            r.objs.push(Obj { addr: ptr as usize, tag: TAG, label, state: ObjState::Live, destroyed: 0 });
            r.by_addr.insert(ptr as usize, id);
            id
        });
        unsafe {
            (*ptr).id.set(id);
            // The creator initialises the payload: a plain write that must happen-before every
            // read through any handle.
            (*ptr).payload.write(&format!("payload of value #{} (init)", label), |v| *v = label);
            (*ptr).header.plain_write(&format!("header of value #{} (init)", label));
        }
        rt::note(|| format!("new value #{} at {:#x}", label, ptr as usize));
        VArc { ptr }
    }

    pub fn addr(&self) -> usize {
        self.ptr as usize
    }

    /// Reads the payload (a plain read, race-checked) and returns the label. Touching a
    /// destroyed value is a C01 violation.
    pub fn get(&self) -> u64 {
        let addr = self.ptr as usize;
        match reg(|r| r.lookup(addr)) {
            Lookup::Live(id) => {
                let tag = reg(|r| r.tag(id));
                if tag != TAG {
                    rt::violation("C12,C03", "type-tag", format!("{} of type tag {} is used as type tag {}", describe(addr), tag, TAG));
                    return u64::MAX;
                }
                let label = reg(|r| r.label(id));
                unsafe { (*self.ptr).payload.read(&format!("payload of value #{}", label), |v| *v) }
            }
            Lookup::Dead(_) => {
                rt::violation("C01,C02", "poison", format!("use after free: {} was read through a handle after its destruction", describe(addr)));
                u64::MAX
            }
            Lookup::Unknown => {
                rt::violation("C01", "wild-pointer", format!("a handle points to {} which is no value of this execution", describe(addr)));
                u64::MAX
            }
        }
    }

    /// The label, without touching the model (for oracles and recording only).
    pub fn peek_label(&self) -> u64 {
        reg(|r| r.label_of_addr(self.ptr as usize)).unwrap_or(u64::MAX)
    }

    /// Current strong count, read outside of the model (oracles only).
    pub fn peek_strong(&self) -> usize {
        match reg(|r| r.lookup(self.ptr as usize)) {
            Lookup::Unknown => usize::MAX,
            _ => unsafe { (*self.ptr).strong.peek() },
        }
    }
}

/// Strong count of the object at `addr`, read outside of the model.
pub fn peek_strong_at<const TAG: u32>(addr: usize) -> usize {
    match reg(|r| r.lookup(addr)) {
        Lookup::Unknown => usize::MAX,
        _ => unsafe { (*(addr as *const VInner<TAG>)).strong.peek() },
    }
}

impl<const TAG: u32> Clone for VArc<TAG> {
    fn clone(&self) -> Self {
        let addr = self.ptr as usize;
        let inject = reg(|r| {
            r.clones += 1;
            match r.clone_panic_in.as_mut() {
                Some(k) if *k <= 1 => {
                    r.clone_panic_in = None;
                    true
                }
                Some(k) => {
                    *k -= 1;
                    false
                }
                None => false,
            }
        });
        if inject && !rt::draining() {
            std::panic::panic_any(rt::Injected("clone"));
        }
        match reg(|r| r.lookup(addr)) {
            Lookup::Live(id) => {
                let label = reg(|r| r.label(id));
                unsafe { (*self.ptr).header.plain_read(&format!("header of value #{} (count increment)", label)) };
                let old = unsafe { (*self.ptr).strong.fetch_add(1, Relaxed) };
                if old == 0 && !rt::draining() {
                    rt::violation("C01,C02", "poison", format!("the count of {} was incremented from zero", describe(addr)));
                }
            }
            Lookup::Dead(_) => {
                rt::violation("C01,C02", "poison", format!("use after free: the count of {} was incremented after its destruction", describe(addr)));
            }
            Lookup::Unknown => {
                rt::violation("C01", "wild-pointer", format!("count increment through a pointer to {}", describe(addr)));
            }
        }
        VArc { ptr: self.ptr }
    }
}

impl<const TAG: u32> Drop for VArc<TAG> {
    fn drop(&mut self) {
        let addr = self.ptr as usize;
        match reg(|r| r.lookup(addr)) {
            Lookup::Live(id) => {
                let label0 = reg(|r| r.label(id));
                unsafe { (*self.ptr).header.plain_read(&format!("header of value #{} (count decrement)", label0)) };
                let old = unsafe { (*self.ptr).strong.fetch_sub(1, Release) };
                if old == 0 {
                    rt::violation("C02", "count", format!("the count of {} was decremented below zero", describe(addr)));
                    return;
                }
                if old != 1 {
                    return;
                }
                fence(Acquire);
                // Destruction. Between the decrement and here another thread may have run (a
                // late increment would be a bug that the poison check reports on its side).
                let (label, hook) = reg(|r| {
                    let o = &mut r.objs[id as usize];
                    o.state = ObjState::Dead;
                    o.destroyed += 1;
                    (o.label, r.on_destroy.clone())
                });
                unsafe {
                    (*self.ptr).payload.write(&format!("payload of value #{} (destructor)", label), |v| *v = u64::MAX - 1);
                }
                rt::note(|| format!("DESTROYED value #{}", label));
                if reg(|r| r.mode == AllocMode::Reuse) {
                    reg(|r| r.free.entry(TAG).or_default().push(addr));
                }
                if let Some(h) = hook {
                    h(label);
                }
            }
            Lookup::Dead(_) => {
                rt::violation("C01,C02", "poison", format!("use after free / double release: the count of {} was decremented after its destruction", describe(addr)));
            }
            Lookup::Unknown => {
                rt::violation("C01", "wild-pointer", format!("count decrement through a pointer to {}", describe(addr)));
            }
        }
    }
}

unsafe impl<const TAG: u32> RefCnt for VArc<TAG> {
    type Base = VInner<TAG>;
    fn into_ptr(me: Self) -> *mut VInner<TAG> {
        let p = me.ptr;
        std::mem::forget(me);
        p
    }
    fn as_ptr(me: &Self) -> *mut VInner<TAG> {
        me.ptr
    }
    unsafe fn from_ptr(ptr: *const VInner<TAG>) -> Self {
        let addr = ptr as usize;
        match reg(|r| r.lookup(addr)) {
            Lookup::Live(id) | Lookup::Dead(id) => {
                let tag = reg(|r| r.tag(id));
                if tag != TAG {
                    rt::violation("C12,C03", "type-tag", format!("{} of type tag {} was turned into a pointer of type tag {}", describe(addr), tag, TAG));
                }
            }
            Lookup::Unknown => {
                rt::violation("C01", "wild-pointer", format!("the library materialised a pointer to {}", describe(addr)));
            }
        }
        VArc { ptr: ptr as *mut _ }
    }
}

impl<const TAG: u32> std::fmt::Debug for VArc<TAG> {
    fn fmt(&self, f: &mut std::fmt::Formatter<'_>) -> std::fmt::Result {
        write!(f, "VArc#{}", self.peek_label())
    }
}

impl<const TAG: u32> serde::Serialize for VArc<TAG> {
    /// Serializes the label; a serializer takes its time, so the value is read, the thread may be
    /// interrupted, and the value is read again (both reads go through the poison / race oracles).
    fn serialize<Ser: serde::Serializer>(&self, serializer: Ser) -> Result<Ser::Ok, Ser::Error> {
        let a = self.get();
        rt::sched_yield();
        let b = self.get();
        if a != b && !rt::draining() {
            rt::violation("C20", "serde", format!("the value changed from #{} to #{} while it was being serialized", a, b));
        }
        serializer.serialize_u64(a)
    }
}
