//! Sequential exhaustive enumerations for Cache (C16), Access/Map projections (C17), panics in
//! user code (C18, sequential part) and serde transparency (C20).

use std::panic::{catch_unwind, AssertUnwindSafe};
use std::sync::{Arc, Mutex, Weak};

use arc_swap::access::{Access, AccessConvert, Constant, DynAccess, Map};
use arc_swap::cache::{Access as CacheAccess, Cache};
use arc_swap::strategy::{CaS, Strategy};
use arc_swap::{ArcSwap, ArcSwapAny, ArcSwapOption, DefaultStrategy, Guard};

#[allow(deprecated)]
type NoFast = arc_swap::strategy::test_strategies::FillFastSlots;

pub struct EnumResult {
    pub cases: u64,
    pub steps: u64,
    pub distinct: u64,
    pub violations: Vec<(String, String)>, // (case description, message)
    pub samples: Vec<String>,
}

// ------------------------------------------------------------------------------------------
// C16: Cache

#[derive(Clone, Copy, Debug, PartialEq, Eq)]
pub enum COp {
    Store(u8),
    Load(u8), // cache index: 0 = first cache, 1 = its clone, 2 = mapped cache
    MakeClone,
}

#[derive(Debug)]
pub struct Pair {
    pub id: u32,
    pub twice: u32,
}

fn run_cache_program<S>(prog: &[COp]) -> Result<u64, String>
where
    S: Strategy<Option<Arc<Pair>>> + Default,
{
    let pool: Vec<Arc<Pair>> = (1..=3u32).map(|i| Arc::new(Pair { id: i, twice: 2 * i })).collect();
    let mk = |v: u8| -> Option<Arc<Pair>> { if v == 0 { None } else { Some(pool[v as usize - 1].clone()) } };
    let val_of = |t: &Option<Arc<Pair>>| -> u8 {
        match t {
            None => 0,
            Some(a) => pool.iter().position(|p| Arc::ptr_eq(p, a)).map(|i| i as u8 + 1).unwrap_or(255),
        }
    };
    let sw: ArcSwapAny<Option<Arc<Pair>>, S> = ArcSwapAny::new(mk(1));
    let mut cur: u8 = 1;
    let mut c0 = Cache::new(&sw);
    let mut c1: Option<Cache<&ArcSwapAny<Option<Arc<Pair>>, S>, Option<Arc<Pair>>>> = None;
    static ZERO: u32 = 0;
    let mut mapped = Cache::new(&sw).map(|o: &Option<Arc<Pair>>| o.as_ref().map(|p| &p.twice).unwrap_or(&ZERO));
    // model: what each cache holds
    let mut held = [1u8, 255, 1];
    let mut obs: u64 = 0;
    for (i, op) in prog.iter().enumerate() {
        match *op {
            COp::Store(v) => {
                sw.store(mk(v));
                cur = v;
            }
            COp::MakeClone => {
                c1 = Some(c0.clone());
                held[1] = held[0];
            }
            COp::Load(k) => {
                let got: u8 = match k {
                    0 => val_of(c0.load()),
                    1 => match c1.as_mut() {
                        Some(c) => val_of(c.load()),
                        None => continue,
                    },
                    _ => {
                        let t = *CacheAccess::load(&mut mapped);
                        if t % 2 != 0 || t / 2 > 3 {
                            return Err(format!("step {}: mapped cache returned {} which is no projection of a stored value", i, t));
                        }
                        (t / 2) as u8
                    }
                };
                if got != cur {
                    return Err(format!("step {}: cache {} returned value {} but the container holds {}", i, k, got, cur));
                }
                held[k as usize] = cur;
                obs = obs * 5 + got as u64;
            }
        }
        // exact counts: pool + container + caches holding it
        for v in 1..=3u8 {
            let expect = 1 + (cur == v) as usize + held.iter().filter(|h| **h == v).count();
            let strong = Arc::strong_count(&pool[v as usize - 1]);
            let slots = arc_swap::verif::slots_holding(Arc::as_ptr(&pool[v as usize - 1]) as usize);
            if strong + slots != expect {
                return Err(format!(
                    "step {} {:?}: value {} has strong count {} (+{} slots) but {} owners (pool, container, caches holding it: {:?})",
                    i, op, v, strong, slots, expect, held
                ));
            }
        }
    }
    Ok(obs)
}

/// Same programs on an `ArcSwap<Pair>` (no None) where the first cache is read through the
/// `cache::Access` trait (generic code path) instead of the inherent method.
fn run_cache_program_trait<S>(prog: &[COp]) -> Result<u64, String>
where
    S: Strategy<Arc<Pair>> + Default,
{
    let pool: Vec<Arc<Pair>> = (1..=3u32).map(|i| Arc::new(Pair { id: i, twice: 2 * i })).collect();
    let sw: ArcSwapAny<Arc<Pair>, S> = ArcSwapAny::new(pool[0].clone());
    let mut cur: u8 = 1;
    let mut c0 = Cache::new(&sw);
    let mut c1: Option<Cache<&ArcSwapAny<Arc<Pair>, S>, Arc<Pair>>> = None;
    let mut held = [1u8, 255];
    let mut obs: u64 = 0;
    fn through_trait<A: CacheAccess<Pair>>(a: &mut A) -> u32 {
        a.load().id
    }
    for (i, op) in prog.iter().enumerate() {
        match *op {
            COp::Store(v) => {
                let v = v.max(1);
                sw.store(pool[v as usize - 1].clone());
                cur = v;
            }
            COp::MakeClone => {
                c1 = Some(c0.clone());
                held[1] = held[0];
            }
            COp::Load(k) => {
                let (got, idx) = match k {
                    0 | 2 => (through_trait(&mut c0) as u8, 0),
                    _ => match c1.as_mut() {
                        Some(c) => (through_trait(c) as u8, 1),
                        None => continue,
                    },
                };
                if got != cur {
                    return Err(format!(
                        "step {}: cache {} read through the Access trait returned value {} but the container holds {}",
                        i, idx, got, cur
                    ));
                }
                held[idx] = cur;
                obs = obs * 5 + got as u64;
            }
        }
        for v in 1..=3u8 {
            let expect = 1 + (cur == v) as usize + held.iter().filter(|h| **h == v).count();
            let strong = Arc::strong_count(&pool[v as usize - 1]);
            let slots = arc_swap::verif::slots_holding(Arc::as_ptr(&pool[v as usize - 1]) as usize);
            if strong + slots != expect {
                return Err(format!("step {} {:?}: value {} has strong count {} (+{} slots) but {} owners", i, op, v, strong, slots, expect));
            }
        }
    }
    Ok(obs)
}

pub fn c16(depth: usize) -> EnumResult {
    let alphabet = [
        COp::Store(0),
        COp::Store(1),
        COp::Store(2),
        COp::Store(3),
        COp::Load(0),
        COp::Load(1),
        COp::Load(2),
        COp::MakeClone,
    ];
    let mut res = EnumResult { cases: 0, steps: 0, distinct: 0, violations: vec![], samples: vec![] };
    let mut outcomes = std::collections::HashSet::new();
    let mut prog: Vec<usize> = Vec::new();
    // all programs of length 1..=depth (odometer)
    for len in 1..=depth {
        prog.clear();
        prog.resize(len, 0);
        loop {
            let p: Vec<COp> = prog.iter().map(|&i| alphabet[i]).collect();
            // programs with more than one MakeClone add nothing
            if p.iter().filter(|o| **o == COp::MakeClone).count() <= 1 {
                for (name, r) in [
                    ("DefaultStrategy", run_cache_program::<DefaultStrategy>(&p)),
                    ("FillFastSlots", run_cache_program::<NoFast>(&p)),
                    ("DefaultStrategy/Access-trait", run_cache_program_trait::<DefaultStrategy>(&p)),
                ] {
                    res.cases += 1;
                    res.steps += len as u64;
                    match r {
                        Ok(o) => {
                            outcomes.insert((o, len));
                        }
                        Err(e) => {
                            res.violations.push((format!("[{}] {:?}", name, p), e));
                            return res;
                        }
                    }
                }
                if res.samples.len() < 3 && len == depth && res.cases % 7919 == 0 {
                    res.samples.push(format!("{:?}", p));
                }
            }
            // next
            let mut i = len;
            loop {
                if i == 0 {
                    break;
                }
                i -= 1;
                prog[i] += 1;
                if prog[i] < alphabet.len() {
                    break;
                }
                prog[i] = 0;
                if i == 0 {
                    i = usize::MAX;
                    break;
                }
            }
            if i == usize::MAX {
                break;
            }
        }
    }
    res.distinct = outcomes.len() as u64;
    if res.samples.is_empty() {
        res.samples.push(format!("{:?}", [COp::Store(2), COp::Load(0), COp::MakeClone, COp::Store(1), COp::Load(1)]));
    }
    res
}

// ------------------------------------------------------------------------------------------
// C17: Access / Map projections

#[derive(Debug, Clone)]
pub struct Inner {
    pub id2: u32,
}
#[derive(Debug)]
pub struct Pt {
    pub id: u32,
    pub inner: Inner,
}

fn pt(i: u32) -> Arc<Pt> {
    Arc::new(Pt { id: i, inner: Inner { id2: i } })
}

/// One projection chain: loads a guard, then `k1` stores, deref, `k2` stores, deref, drop, load again.
fn access_case<A, G, R>(name: &str, sw: &ArcSwap<Pt>, acc: &A, read: &dyn Fn(&G) -> u32, k1: usize, k2: usize, constant: Option<u32>) -> Result<u64, String>
where
    A: Access<R, Guard = G>,
    G: std::ops::Deref<Target = R>,
{
    let first = sw.load_full();
    let first_id = first.id;
    let weak: Weak<Pt> = Arc::downgrade(&first);
    drop(first);
    let expect = constant.unwrap_or(first_id);
    let g = acc.load();
    let mut next = 100 + first_id;
    let mut seen = Vec::new();
    for (phase, k) in [(1, k1), (2, k2)] {
        for _ in 0..k {
            next += 1;
            sw.store(pt(next));
        }
        let got = read(&g);
        seen.push(got);
        if got != expect {
            return Err(format!(
                "{}: a guard taken when the value was {} reads {} at its deref number {} (after {} store(s))",
                name, first_id, got, phase, if phase == 1 { k1 } else { k1 + k2 }
            ));
        }
        if constant.is_none() && weak.upgrade().is_none() {
            return Err(format!("{}: the snapshot {} was destroyed while a projection guard on it is alive", name, first_id));
        }
    }
    drop(g);
    if constant.is_none() && k1 + k2 > 0 && weak.upgrade().is_some() {
        return Err(format!("{}: the snapshot {} is still alive after its last guard was dropped and the value replaced", name, first_id));
    }
    // a load started after the stores completed projects the newest value
    let g2 = acc.load();
    let now = read(&g2);
    let want = constant.unwrap_or(if k1 + k2 > 0 { next } else { first_id });
    if now != want {
        return Err(format!("{}: a load after {} completed store(s) projects {} instead of {}", name, k1 + k2, now, want));
    }
    Ok(seen.iter().fold(now as u64, |a, b| a * 31 + *b as u64))
}

pub fn c17(max_stores: usize) -> EnumResult {
    let mut res = EnumResult { cases: 0, steps: 0, distinct: 0, violations: vec![], samples: vec![] };
    let mut outcomes = std::collections::HashSet::new();
    for start in 1..=2u32 {
        for k1 in 0..=max_stores {
            for k2 in 0..=max_stores {
                let sw = ArcSwap::from(pt(start));
                let shared = Arc::new(ArcSwap::from(pt(start)));
                let mut run = |name: &str, r: Result<u64, String>| {
                    res.cases += 1;
                    res.steps += (k1 + k2 + 4) as u64;
                    match r {
                        Ok(o) => {
                            outcomes.insert((name.to_string(), o));
                        }
                        Err(e) => {
                            res.violations.push((format!("{} start={} stores={}+{}", name, start, k1, k2), e));
                        }
                    }
                };
                // 1. the container itself, guard derefs to the Arc
                run(
                    "container as Access<Arc<Pt>>",
                    access_case::<_, Guard<Arc<Pt>>, Arc<Pt>>("container as Access<Arc<Pt>>", &sw, &sw, &|g| g.id, k1, k2, None),
                );
                // 2. direct deref to the pointee
                {
                    let acc: &ArcSwap<Pt> = &sw;
                    run(
                        "container as Access<Pt>",
                        access_case::<_, <ArcSwap<Pt> as Access<Pt>>::Guard, Pt>("container as Access<Pt>", &sw, acc, &|g| g.id, k1, k2, None),
                    );
                }
                // 3. through a reference and through an Arc
                {
                    let r: &ArcSwap<Pt> = &sw;
                    run(
                        "&container",
                        access_case::<&ArcSwap<Pt>, <ArcSwap<Pt> as Access<Pt>>::Guard, Pt>("&container", &sw, &r, &|g| g.id, k1, k2, None),
                    );
                    run(
                        "Arc<container>",
                        access_case::<Arc<ArcSwap<Pt>>, <ArcSwap<Pt> as Access<Pt>>::Guard, Pt>("Arc<container>", &shared, &shared, &|g| g.id, k1, k2, None),
                    );
                }
                // 4. Map, 5. Map of Map
                {
                    let m = Map::new(&sw, |p: &Pt| &p.inner);
                    run("Map", access_case("Map", &sw, &m, &|g| g.id2, k1, k2, None));
                    let mm = Map::new(Map::new(&sw, |p: &Pt| &p.inner), |i: &Inner| &i.id2);
                    run("Map of Map", access_case("Map of Map", &sw, &mm, &|g| **g, k1, k2, None));
                    let via = sw.map(|p: &Pt| &p.inner.id2);
                    run("ArcSwapAny::map", access_case("ArcSwapAny::map", &sw, &via, &|g| **g, k1, k2, None));
                }
                // 6. dynamic dispatch, 7. AccessConvert
                {
                    let shared2 = shared.clone();
                    let m = Map::new(shared2, |p: &Pt| &p.inner);
                    let b: Box<dyn DynAccess<Inner>> = Box::new(m);
                    run("Box<dyn DynAccess>", access_case("Box<dyn DynAccess>", &shared, &b, &|g| g.id2, k1, k2, None));
                    let conv = AccessConvert(b);
                    run("AccessConvert", access_case("AccessConvert", &shared, &conv, &|g| g.id2, k1, k2, None));
                    // static and dynamic dispatch agree
                    let stat = Map::new(shared.clone(), |p: &Pt| &p.inner);
                    let dynm: Box<dyn DynAccess<Inner>> = Box::new(Map::new(shared.clone(), |p: &Pt| &p.inner));
                    let a = Access::load(&stat).id2;
                    let b2 = DynAccess::load(&*dynm).id2;
                    run(
                        "static vs dynamic dispatch",
                        if a == b2 { Ok(a as u64) } else { Err(format!("static dispatch projects {} but dynamic dispatch {}", a, b2)) },
                    );
                }
                // 7b. projections that stay on the smart-pointer level / point into the guard itself
                {
                    let m = Map::new(&sw, |a: &Arc<Pt>| a);
                    run("Map with Arc-level projection", access_case("Map with Arc-level projection", &sw, &m, &|g| g.id, k1, k2, None));
                    let mm = Map::new(Map::new(&sw, |a: &Arc<Pt>| a), |a: &Arc<Pt>| &a.inner);
                    run("Map of Arc-level Map", access_case("Map of Arc-level Map", &sw, &mm, &|g| g.id2, k1, k2, None));
                    let mc = Map::new(Constant(Inner { id2: 77 }), |i: &Inner| &i.id2);
                    run("Map over Constant", access_case("Map over Constant", &sw, &mc, &|g| **g, k1, k2, Some(77)));
                    let bc: Box<dyn DynAccess<u32>> = Box::new(Map::new(Constant(Inner { id2: 77 }), |i: &Inner| &i.id2));
                    run("dyn Map over Constant", access_case("dyn Map over Constant", &sw, &bc, &|g| **g, k1, k2, Some(77)));
                }
                // 8. Constant
                {
                    let c = Constant(Inner { id2: 77 }.id2);
                    run("Constant", access_case("Constant", &sw, &c, &|g| **g, k1, k2, Some(77)));
                }
            }
        }
    }
    res.distinct = outcomes.len() as u64;
    res.samples.push("Map of Map: load guard at value 1; store; deref -> 1; store; deref -> 1; drop; load -> 103".into());
    res.samples.push("Box<dyn DynAccess<Inner>> over Map<Arc<ArcSwap<Pt>>>: 2 stores before the first deref, 0 between".into());
    res
}

// ------------------------------------------------------------------------------------------
// C18 (sequential part): panics in user code

pub struct Bomb {
    id: u32,
    armed: Arc<Mutex<Option<u32>>>,
    dropped: Arc<Mutex<Vec<u32>>>,
}

impl Drop for Bomb {
    fn drop(&mut self) {
        self.dropped.lock().unwrap().push(self.id);
        let armed = *self.armed.lock().unwrap();
        if armed == Some(self.id) {
            *self.armed.lock().unwrap() = None;
            if !std::thread::panicking() {
                std::panic::panic_any(arc_swap_verif_rt::Injected("destructor"));
            }
        }
    }
}

/// compare_and_swap with `current` given as a guard by value (only implemented for guards of the
/// default strategy; the others borrow).
pub trait C18Strat: Strategy<Arc<Bomb>> + CaS<Arc<Bomb>> + Default {
    const GUARD_BY_VALUE: bool;
    fn cas_with_owned_guard(sw: &ArcSwapAny<Arc<Bomb>, Self>, cur: Arc<Bomb>, new: Arc<Bomb>) -> Guard<Arc<Bomb>, Self>;
}
impl C18Strat for DefaultStrategy {
    const GUARD_BY_VALUE: bool = true;
    fn cas_with_owned_guard(sw: &ArcSwapAny<Arc<Bomb>, Self>, cur: Arc<Bomb>, new: Arc<Bomb>) -> Guard<Arc<Bomb>, Self> {
        let g: Guard<Arc<Bomb>> = Guard::from_inner(cur);
        sw.compare_and_swap(g, new)
    }
}
impl C18Strat for NoFast {
    const GUARD_BY_VALUE: bool = false;
    fn cas_with_owned_guard(sw: &ArcSwapAny<Arc<Bomb>, Self>, cur: Arc<Bomb>, new: Arc<Bomb>) -> Guard<Arc<Bomb>, Self> {
        let r = sw.compare_and_swap(&cur, new);
        // the value dies here, outside the library
        let _ = catch_unwind(AssertUnwindSafe(move || drop(cur)));
        r
    }
}
impl C18Strat for arc_swap_verif_rt::sync::RwLock<()> {
    const GUARD_BY_VALUE: bool = false;
    fn cas_with_owned_guard(sw: &ArcSwapAny<Arc<Bomb>, Self>, cur: Arc<Bomb>, new: Arc<Bomb>) -> Guard<Arc<Bomb>, Self> {
        let r = sw.compare_and_swap(&cur, new);
        let _ = catch_unwind(AssertUnwindSafe(move || drop(cur)));
        r
    }
}

fn c18_case<S>(sname: &str, guards_held: usize, inject: &str) -> Result<(), String>
where
    S: C18Strat,
{
    let armed = Arc::new(Mutex::new(None));
    let dropped = Arc::new(Mutex::new(Vec::new()));
    let mk = |id: u32| Arc::new(Bomb { id, armed: armed.clone(), dropped: dropped.clone() });
    let a = mk(1);
    let a_weak = Arc::downgrade(&a);
    let sw: ArcSwapAny<Arc<Bomb>, S> = ArcSwapAny::new(a);
    let held: Vec<Guard<Arc<Bomb>, S>> = (0..guards_held).map(|_| sw.load()).collect();
    let before = sw.load().id;
    let what;
    let r = match inject {
        "rcu-closure" => {
            what = "rcu whose closure panics";
            catch_unwind(AssertUnwindSafe(|| {
                sw.rcu(|_cur: &Arc<Bomb>| -> Arc<Bomb> { std::panic::panic_any(arc_swap_verif_rt::Injected("closure")) });
            }))
        }
        "rcu-closure-after-alloc" => {
            what = "rcu whose closure panics after creating its result";
            catch_unwind(AssertUnwindSafe(|| {
                sw.rcu(|_cur: &Arc<Bomb>| -> Arc<Bomb> {
                    let _n = mk(50);
                    std::panic::panic_any(arc_swap_verif_rt::Injected("closure"))
                });
            }))
        }
        "store-dtor" => {
            what = "store whose replaced value's destructor panics";
            drop(held);
            *armed.lock().unwrap() = Some(1);
            let r = catch_unwind(AssertUnwindSafe(|| sw.store(mk(2))));
            return c18_after(sname, what, &sw, 2, r.is_err(), true, &a_weak, &dropped, 1, vec![]);
        }
        "cas-rejected-dtor" => {
            what = "compare_and_swap that fails and whose rejected new value's destructor panics";
            let other = mk(9);
            *armed.lock().unwrap() = Some(3);
            let r = catch_unwind(AssertUnwindSafe(|| {
                let g = sw.compare_and_swap(&other, mk(3));
                drop(g);
            }));
            return c18_after(sname, what, &sw, 1, r.is_err(), true, &a_weak, &dropped, 3, held);
        }
        "cas-current-guard-dtor" => {
            what = "compare_and_swap whose `current` is a guard passed by value that owns the last reference of a value with a panicking destructor";
            *armed.lock().unwrap() = Some(9);
            let other = mk(9);
            let r = catch_unwind(AssertUnwindSafe(|| {
                let g = S::cas_with_owned_guard(&sw, other, mk(3));
                drop(g);
            }));
            return c18_after(sname, what, &sw, 1, r.is_err(), S::GUARD_BY_VALUE, &a_weak, &dropped, 9, held);
        }
        "guard-drop-dtor" => {
            what = "dropping the last guard of a replaced value whose destructor panics";
            let g = sw.load();
            sw.store(mk(2));
            drop(held);
            *armed.lock().unwrap() = Some(1);
            let r = catch_unwind(AssertUnwindSafe(move || drop(g)));
            return c18_after(sname, what, &sw, 2, r.is_err(), true, &a_weak, &dropped, 1, vec![]);
        }
        _ => unreachable!(),
    };
    // closure panics: nothing may have changed
    if r.is_ok() {
        return Err(format!("[{}] {}: the panic did not propagate", sname, what));
    }
    c18_after(sname, what, &sw, before, true, false, &a_weak, &dropped, 50, held)
}

#[allow(clippy::too_many_arguments)]
fn c18_after<S>(
    sname: &str,
    what: &str,
    sw: &ArcSwapAny<Arc<Bomb>, S>,
    expect_value: u32,
    panicked: bool,
    must_panic: bool,
    first: &Weak<Bomb>,
    dropped: &Arc<Mutex<Vec<u32>>>,
    must_be_dropped: u32,
    held: Vec<Guard<Arc<Bomb>, S>>,
) -> Result<(), String>
where
    S: Strategy<Arc<Bomb>> + CaS<Arc<Bomb>> + Default,
{
    if must_panic && !panicked {
        return Err(format!("[{}] {}: the injected panic did not propagate to the caller", sname, what));
    }
    // the container holds a legitimately stored value and works
    let now = sw.load().id;
    if now != expect_value {
        return Err(format!("[{}] {}: the container holds {} afterwards, expected {}", sname, what, now, expect_value));
    }
    // guards held across the panic still denote their value
    for g in &held {
        if g.id != 1 {
            return Err(format!("[{}] {}: a guard held across the panic now reads {}", sname, what, g.id));
        }
    }
    drop(held);
    // follow-up operations behave normally
    let old = sw.swap(Arc::new(Bomb { id: 70, armed: Arc::new(Mutex::new(None)), dropped: dropped.clone() }));
    if old.id != expect_value {
        return Err(format!("[{}] {}: a later swap returned {} instead of {}", sname, what, old.id, expect_value));
    }
    let strong = Arc::strong_count(&old);
    let slots = arc_swap::verif::slots_holding(Arc::as_ptr(&old) as usize);
    if strong != 1 || slots != 0 {
        return Err(format!("[{}] {}: after unwinding, value {} has strong count {} and {} debt slot(s) although only one handle exists", sname, what, old.id, strong, slots));
    }
    drop(old);
    if expect_value != 1 && first.upgrade().is_some() {
        return Err(format!("[{}] {}: the replaced value is still alive (leaked reference)", sname, what));
    }
    let d = dropped.lock().unwrap().clone();
    if must_be_dropped != 50 && d.iter().filter(|x| **x == must_be_dropped).count() != 1 {
        return Err(format!("[{}] {}: value {} was destroyed {} times", sname, what, must_be_dropped, d.iter().filter(|x| **x == must_be_dropped).count()));
    }
    if must_be_dropped == 50 && what.contains("after creating") && d.iter().filter(|x| **x == 50).count() != 1 {
        return Err(format!("[{}] {}: the value created by the panicking closure was destroyed {} times", sname, what, d.iter().filter(|x| **x == 50).count()));
    }
    // no slot left occupied on this thread
    for n in arc_swap::verif::nodes() {
        if n.control != 0 || n.active_writers != 0 {
            return Err(format!("[{}] {}: a node is left with control {:#x} / {} active writers", sname, what, n.control, n.active_writers));
        }
    }
    Ok(())
}

pub fn c18() -> EnumResult {
    let mut res = EnumResult { cases: 0, steps: 0, distinct: 0, violations: vec![], samples: vec![] };
    let slots = arc_swap_verif_rt::cfg::DEBT_SLOT_CNT;
    for inject in ["rcu-closure", "rcu-closure-after-alloc", "store-dtor", "cas-rejected-dtor", "cas-current-guard-dtor", "guard-drop-dtor"] {
        for g in [0usize, 1, slots + 1] {
            // The lock-based reference strategy (internal, test only) holds its lock while it drops
            // a rejected value, so a panicking destructor poisons it by design; it only takes
            // part in the closure-panic cases.
            let mut runs = vec![
                ("DefaultStrategy", c18_case::<DefaultStrategy>("DefaultStrategy", g, inject)),
                ("FillFastSlots", c18_case::<NoFast>("FillFastSlots", g, inject)),
            ];
            if inject.starts_with("rcu-closure") {
                runs.push(("RwLock", c18_case::<arc_swap_verif_rt::sync::RwLock<()>>("RwLock", g, inject)));
            }
            for (name, r) in runs {
                res.cases += 1;
                res.steps += 6;
                res.distinct += 1;
                if let Err(e) = r {
                    res.violations.push((format!("{} inject={} guards_held={}", name, inject, g), e));
                }
            }
        }
    }
    // projection panics: a Map whose projection panics leaves the guard and the container usable
    {
        res.cases += 1;
        res.distinct += 1;
        let sw = ArcSwap::from(pt(1));
        let m = Map::new(&sw, |p: &Pt| -> &u32 {
            if p.id == 2 {
                std::panic::panic_any(arc_swap_verif_rt::Injected("projection"))
            }
            &p.id
        });
        let ok = (|| -> Result<(), String> {
            let g = Access::load(&m);
            if *g != 1 {
                return Err("projection of value 1 wrong".into());
            }
            sw.store(pt(2));
            let g2 = Access::load(&m);
            let r = catch_unwind(AssertUnwindSafe(|| *g2));
            if r.is_ok() {
                return Err("the projection panic did not propagate".into());
            }
            drop(g2);
            if *g != 1 {
                return Err("an older projection guard changed after a projection panic".into());
            }
            drop(g);
            sw.store(pt(3));
            if *Access::load(&m) != 3 {
                return Err("the container does not work after a projection panic".into());
            }
            let cur = sw.load_full();
            if Arc::strong_count(&cur) != 2 {
                return Err(format!("strong count {} after a projection panic (expected 2)", Arc::strong_count(&cur)));
            }
            Ok(())
        })();
        if let Err(e) = ok {
            res.violations.push(("Map projection panics".into(), e));
        }
    }
    res.samples.push("DefaultStrategy: hold 3 guards; rcu(|_| panic!()); container unchanged, counts exact, later swap works".into());
    res.samples.push("RwLock: store(2) where the destructor of the replaced value 1 panics; container holds 2; 1 destroyed exactly once".into());
    res
}

// ------------------------------------------------------------------------------------------
// C20: serde transparency

use serde::{Deserialize, Serialize};

#[derive(Clone, Debug, PartialEq, Serialize, Deserialize)]
pub struct Rec {
    pub a: u8,
    pub b: Option<String>,
}

#[derive(Clone, Debug, PartialEq, Serialize, Deserialize)]
pub enum Shape {
    Unit,
    Bool(bool),
    Byte(u8),
    Int(i64),
    Text(String),
    Opt(Option<Box<Shape>>),
    List(Vec<Shape>),
    Rec(Rec),
}

fn shapes(depth: usize) -> Vec<Shape> {
    let mut base = vec![
        Shape::Unit,
        Shape::Bool(true),
        Shape::Bool(false),
        Shape::Byte(0),
        Shape::Byte(255),
        Shape::Int(-1),
        Shape::Int(i64::MAX),
        Shape::Text(String::new()),
        Shape::Text("a\"b\\c\u{e9}".into()),
        Shape::Rec(Rec { a: 1, b: None }),
        Shape::Rec(Rec { a: 2, b: Some("x".into()) }),
        Shape::Opt(None),
        Shape::List(vec![]),
    ];
    if depth == 0 {
        return base;
    }
    let inner = shapes(depth - 1);
    for s in &inner {
        base.push(Shape::Opt(Some(Box::new(s.clone()))));
        base.push(Shape::List(vec![s.clone()]));
    }
    for s in inner.iter().take(6) {
        for t in inner.iter().take(6) {
            base.push(Shape::List(vec![s.clone(), t.clone()]));
        }
    }
    base
}

fn c20_one<S>(sname: &str, v: &Shape) -> Result<(), String>
where
    S: Strategy<Arc<Shape>> + Strategy<Option<Arc<Shape>>> + Default,
{
    // ArcSwap flavour
    let arc = Arc::new(v.clone());
    let sw: ArcSwapAny<Arc<Shape>, S> = ArcSwapAny::new(arc.clone());
    let js = serde_json::to_string(&sw).map_err(|e| e.to_string())?;
    let jp = serde_json::to_string(&arc).map_err(|e| e.to_string())?;
    if js != jp {
        return Err(format!("[{}] container serializes as {} but its value as {}", sname, js, jp));
    }
    if Arc::strong_count(&arc) != 2 {
        return Err(format!("[{}] serializing changed the strong count to {}", sname, Arc::strong_count(&arc)));
    }
    let back: ArcSwapAny<Arc<Shape>, S> = serde_json::from_str(&js).map_err(|e| e.to_string())?;
    let got = back.load_full();
    if *got != *v {
        return Err(format!("[{}] round trip changed the value: {:?} -> {:?}", sname, v, got));
    }
    if Arc::strong_count(&got) != 2 {
        return Err(format!("[{}] the deserialized container's value has strong count {} (expected container + this handle)", sname, Arc::strong_count(&got)));
    }
    // Deserializing *into* an existing container (serde's `deserialize_in_place`, what derived
    // impls with that feature and hand-written forwarding impls call) while guards of the old
    // value are alive: the container must end up with the new value, and the old value must be
    // fully accounted for (the guards keep denoting it, nothing is released twice).
    for guards in [1usize, arc_swap_verif_rt::cfg::DEBT_SLOT_CNT + 1] {
        let old = Arc::new(v.clone());
        let probe = Arc::downgrade(&old);
        let mut place: ArcSwapAny<Arc<Shape>, S> = ArcSwapAny::new(old);
        let gs: Vec<_> = (0..guards).map(|_| place.load()).collect();
        let mut de = serde_json::Deserializer::from_str(&js);
        serde::Deserialize::deserialize_in_place(&mut de, &mut place).map_err(|e| e.to_string())?;
        let now = place.load_full();
        if *now != *v {
            return Err(format!("[{}] deserialize_in_place left {:?} in the container instead of {:?}", sname, now, v));
        }
        if Arc::strong_count(&now) != 2 {
            return Err(format!("[{}] after deserialize_in_place the new value has strong count {} (expected container + this handle)", sname, Arc::strong_count(&now)));
        }
        // the old value is owned by the guards only now: every guard that is not backed by a debt
        // any more holds a counted reference
        let strong = probe.strong_count();
        if strong != guards {
            return Err(format!(
                "[{}] after deserialize_in_place with {} live guard(s) of the old value its strong count is {} (the guards' protection was not turned into references)",
                sname, guards, strong
            ));
        }
        for g in &gs {
            if ***g != *v {
                return Err(format!("[{}] a guard taken before deserialize_in_place reads {:?}", sname, **g));
            }
        }
        drop(gs);
        if probe.strong_count() != 0 {
            return Err(format!("[{}] the value replaced by deserialize_in_place is still alive after its guards are gone (count {})", sname, probe.strong_count()));
        }
    }
    // ArcSwapOption flavour, Some and None
    for opt in [Some(Arc::new(v.clone())), None] {
        let swo: ArcSwapAny<Option<Arc<Shape>>, S> = ArcSwapAny::new(opt.clone());
        let js = serde_json::to_string(&swo).map_err(|e| e.to_string())?;
        let jp = serde_json::to_string(&opt).map_err(|e| e.to_string())?;
        if js != jp {
            return Err(format!("[{}] optional container serializes as {} but its value as {}", sname, js, jp));
        }
        let back: ArcSwapAny<Option<Arc<Shape>>, S> = serde_json::from_str(&js).map_err(|e| e.to_string())?;
        let got = back.load_full();
        if got.as_deref() != opt.as_deref() {
            return Err(format!("[{}] optional round trip changed the value: {:?} -> {:?}", sname, opt, got));
        }
        if let Some(g) = &got {
            if Arc::strong_count(g) != 2 {
                return Err(format!("[{}] deserialized optional value has strong count {}", sname, Arc::strong_count(g)));
            }
        }
    }
    Ok(())
}

/// Token-level comparison through serde_test for the scalar-ish shapes (serde_test needs
/// 'static token lists, so the nested grammar is compared through JSON above).
fn c20_tokens() -> Result<u64, String> {
    use serde_test::{assert_ser_tokens, Token};
    let r = catch_unwind(|| {
        let sw = ArcSwap::from_pointee(7u8);
        assert_ser_tokens(&sw, &[Token::U8(7)]);
        let sw = ArcSwap::from_pointee("xy".to_string());
        assert_ser_tokens(&sw, &[Token::Str("xy")]);
        let sw: ArcSwapOption<u8> = ArcSwapOption::from_pointee(None);
        assert_ser_tokens(&sw, &[Token::None]);
        let sw: ArcSwapOption<u8> = ArcSwapOption::from_pointee(Some(3));
        assert_ser_tokens(&sw, &[Token::Some, Token::U8(3)]);
        let sw = ArcSwap::from_pointee(Rec { a: 1, b: Some("q".into()) });
        assert_ser_tokens(
            &sw,
            &[Token::Struct { name: "Rec", len: 2 }, Token::Str("a"), Token::U8(1), Token::Str("b"), Token::Some, Token::Str("q"), Token::StructEnd],
        );
        let sw = ArcSwap::from_pointee(vec![Some(1i64), None]);
        assert_ser_tokens(&sw, &[Token::Seq { len: Some(2) }, Token::Some, Token::I64(1), Token::None, Token::SeqEnd]);
    });
    match r {
        Ok(()) => Ok(6),
        Err(_) => Err("the token stream of a container differs from the token stream of its value (serde_test)".into()),
    }
}

pub fn c20(depth: usize) -> EnumResult {
    let mut res = EnumResult { cases: 0, steps: 0, distinct: 0, violations: vec![], samples: vec![] };
    let all = shapes(depth);
    let mut distinct = std::collections::HashSet::new();
    for v in &all {
        distinct.insert(serde_json::to_string(v).unwrap_or_default());
        for (name, r) in [("DefaultStrategy", c20_one::<DefaultStrategy>("DefaultStrategy", v)), ("FillFastSlots", c20_one::<NoFast>("FillFastSlots", v))] {
            res.cases += 1;
            res.steps += 9 + 2 * 4;
            if let Err(e) = r {
                res.violations.push((format!("{} value={:?}", name, v), e));
            }
        }
    }
    match c20_tokens() {
        Ok(n) => res.cases += n,
        Err(e) => {
            res.violations.push(("serde_test token streams".into(), e));
        }
    }
    res.distinct = distinct.len() as u64;
    for v in all.iter().rev().take(2) {
        res.samples.push(format!("{:?}", v));
    }
    res
}

// ------------------------------------------------------------------------------------------
// C12 (sequential part): one allocation reachable through containers of different pointer kinds

/// A guard is taken from a container of kind X, a container of kind Y holding a pointer to the
/// same allocation is written, the guard is dropped; strong and weak counts must be what the
/// owners explain.
pub fn c12_cross_kind() -> EnumResult {
    use std::sync::Weak;
    let mut res = EnumResult { cases: 0, steps: 0, distinct: 0, violations: vec![], samples: vec![] };
    let mut fail = |res: &mut EnumResult, case: &str, msg: String| {
        res.violations.push((case.to_string(), msg));
    };
    for guards in [1usize, arc_swap_verif_rt::cfg::DEBT_SLOT_CNT + 1] {
        // (reader kind, writer kind)
        for (rk, wk) in [("Arc", "Arc"), ("Arc", "Option<Arc>"), ("Option<Arc>", "Arc"), ("Arc", "Weak"), ("Weak", "Arc"), ("Weak", "Weak")] {
            res.cases += 1;
            res.steps += 5;
            res.distinct += 1;
            let case = format!("guard from a container of {} / store into a container of {} holding the same allocation / guards={}", rk, wk, guards);
            let a = Arc::new(5u32);
            let other = Arc::new(6u32);
            let arc_c = ArcSwap::from(a.clone());
            let opt_c = ArcSwapOption::from(Some(a.clone()));
            let weak_c: ArcSwapAny<Weak<u32>> = ArcSwapAny::new(Arc::downgrade(&a));
            let strong0 = Arc::strong_count(&a);
            let weak0 = Arc::weak_count(&a);
            let r = catch_unwind(AssertUnwindSafe(|| {
                enum G {
                    A(Guard<Arc<u32>>),
                    O(Guard<Option<Arc<u32>>>),
                    W(Guard<Weak<u32>>),
                }
                let gs: Vec<G> = (0..guards)
                    .map(|_| match rk {
                        "Arc" => G::A(arc_c.load()),
                        "Option<Arc>" => G::O(opt_c.load()),
                        _ => G::W(weak_c.load()),
                    })
                    .collect();
                match wk {
                    "Arc" => arc_c.store(other.clone()),
                    "Option<Arc>" => opt_c.store(None),
                    _ => weak_c.store(Weak::new()),
                }
                drop(gs);
            }));
            if r.is_err() {
                fail(&mut res, &case, "panicked".into());
                continue;
            }
            let (ds, dw) = match wk {
                "Arc" | "Option<Arc>" => (1usize, 0usize),
                _ => (0, 1),
            };
            let strong = Arc::strong_count(&a);
            let weak = Arc::weak_count(&a);
            if strong != strong0 - ds || weak != weak0 - dw {
                fail(
                    &mut res,
                    &case,
                    format!(
                        "strong/weak counts are {}/{} afterwards, the owners explain {}/{} (a debt taken through one pointer kind was paid or returned as another kind)",
                        strong,
                        weak,
                        strong0 - ds,
                        weak0 - dw
                    ),
                );
            }
            // leak everything that may now be inconsistent instead of crashing on drop
            if res.violations.iter().any(|(c, _)| *c == case) {
                std::mem::forget(arc_c);
                std::mem::forget(opt_c);
                std::mem::forget(weak_c);
                std::mem::forget(a);
            }
        }
    }
    res.samples.push("g = ArcSwap<u32>.load(); ArcSwapWeak<u32> (same allocation).store(Weak::new()); drop(g); counts".into());
    res
}
