//! The non-engine parts of the property checks: explicit-state search over the API and complete
//! enumerations of finite configuration spaces. Each returns a JSON section for the evidence
//! file and a list of violations.

use serde::{Deserialize, Serialize};
use serde_json::json;

use crate::prop::Tier;
use crate::{seq, seq_c15, seq_more};

#[derive(Serialize, Deserialize, Clone, Debug, Default)]
pub struct SeqViol {
    pub case: String,
    pub message: String,
    pub replay: serde_json::Value,
}

#[derive(Serialize, Deserialize, Clone, Debug, Default)]
pub struct SeqOut {
    pub present: bool,
    pub states: u64,
    pub transitions: u64,
    pub traces: u64,
    pub evaluations: u64,
    pub distinct: u64,
    pub exhaustive: bool,
    pub violations: Vec<SeqViol>,
    pub samples: Vec<serde_json::Value>,
    pub detail: serde_json::Value,
}

fn build_name() -> &'static str {
    if cfg!(feature = "small") {
        if cfg!(debug_assertions) {
            "small"
        } else {
            "rel (small, debug assertions off)"
        }
    } else {
        "ship"
    }
}

fn from_enum(name: &str, r: seq_more::EnumResult, exhaustive: bool, what: &str) -> SeqOut {
    let mut o = SeqOut {
        present: true,
        states: r.cases.max(1),
        transitions: r.steps.max(1),
        traces: r.cases,
        evaluations: r.cases,
        distinct: r.distinct,
        exhaustive,
        violations: vec![],
        samples: r.samples.iter().map(|s| json!({"part": name, "build": build_name(), "case": s})).collect(),
        detail: json!({"part": name, "build": build_name(), "what": what, "cases": r.cases, "api_calls": r.steps, "distinct_outcomes": r.distinct}),
    };
    for (case, msg) in r.violations {
        o.violations.push(SeqViol { case: case.clone(), message: msg, replay: json!({"kind": "seq", "part": name, "build": build_name(), "case": case}) });
    }
    o
}

fn api_search(tier: Tier, only_cas: bool) -> SeqOut {
    let slots = arc_swap_verif_rt::cfg::DEBT_SLOT_CNT;
    // small build: guards up to S+1 (quick) / S+2 (thorough) so that the search crosses the
    // fast-slot limit; shipped build (8 slots): depth-limited, the slot limit is crossed by the
    // dedicated many-guards programs below.
    let (max_guards, max_handles, depth) = match (tier, slots) {
        (Tier::Quick, 2) => (3, 2, None),
        (Tier::Thorough, 2) => (4, 3, None),
        (Tier::Quick, _) => (3, 2, Some(5)),
        (Tier::Thorough, _) => (4, 2, Some(7)),
    };
    let threads = std::thread::available_parallelism().map(|n| n.get()).unwrap_or(8).min(16);
    let r = seq::search(max_guards, max_handles, depth, threads, only_cas);
    let mut o = SeqOut {
        present: true,
        states: r.states as u64,
        transitions: r.transitions,
        traces: r.replays,
        evaluations: r.replays,
        distinct: r.states as u64,
        exhaustive: r.closed && r.violation.is_none(),
        violations: vec![],
        samples: r.samples.iter().map(|s| json!({"part": "api-state-search", "build": build_name(), "path": s})).collect(),
        detail: json!({
            "part": "api-state-search",
            "build": build_name(),
            "caps": {"containers": seq::CONTS, "pool_values_plus_none": seq::POOL + 1, "max_guards": max_guards, "max_handles": max_handles, "max_depth": depth},
            "abstract_states": r.states,
            "transitions_executed": r.transitions,
            "paths_replayed_on_the_implementation": r.replays,
            "strategies": ["DefaultStrategy", "FillFastSlots", "RwLock<()>"],
            "closed": r.closed,
            "bfs_depth_reached": r.max_depth,
            "compare_and_swap_transitions": r.cas_transitions,
            "transitions_by_operation": r.ops_hist,
        }),
    };
    if let Some((path, msg)) = r.violation {
        o.violations.push(SeqViol {
            case: format!("{:?}", path),
            message: msg,
            replay: json!({"kind": "seq", "part": "api-state-search", "build": build_name(), "path": path}),
        });
    }
    o
}

/// Programs with more guards than fast slots, released in every rotation order, around each
/// kind of write (order effects the multiset abstraction of the state search cannot see).
fn many_guards() -> SeqOut {
    use seq::{Form, Op};
    let slots = arc_swap_verif_rt::cfg::DEBT_SLOT_CNT;
    let mut cases = 0u64;
    let mut steps = 0u64;
    let mut viol = None;
    let writes: Vec<Vec<Op>> = vec![
        vec![Op::Store(0, 2)],
        vec![Op::Swap(0, 2)],
        vec![Op::Cas(0, Form::Ref, 1, 2)],
        vec![Op::Cas(0, Form::Ref, 3, 2)],
        vec![Op::Rcu(0, 0)],
        vec![Op::IntoInner(0)],
        vec![Op::DropCont(0)],
        vec![Op::Store(0, 2), Op::Store(0, 1)],
    ];
    for n in [slots, slots + 1, slots + 2] {
        for w in &writes {
            for order in 0..3u8 {
                for promote_at in 0..=n {
                    // all guards are on value 1; the k-th release is a Guard::into_inner;
                    // release order: 0 = oldest first, 1 = newest first, 2 = alternating ends
                    let mut p = vec![Op::New(0, 1)];
                    for _ in 0..n {
                        p.push(Op::Load(0));
                    }
                    p.extend(w.iter().cloned());
                    for k in 0..n {
                        let idx: u8 = match order {
                            0 => 0,
                            1 => 255,
                            _ => {
                                if k % 2 == 0 {
                                    0
                                } else {
                                    255
                                }
                            }
                        };
                        p.push(if k == promote_at { Op::GuardIntoAt(idx, 1) } else { Op::DropGuardAt(idx, 1) });
                    }
                    cases += 1;
                    steps += p.len() as u64;
                    if let Err(e) = seq::replay_all_uncapped(&p) {
                        if viol.is_none() {
                            viol = Some((p.clone(), e));
                        }
                    }
                }
            }
        }
    }
    let mut o = SeqOut {
        present: true,
        states: cases,
        transitions: steps,
        traces: cases * 3,
        evaluations: cases * 3,
        distinct: cases,
        exhaustive: true,
        violations: vec![],
        samples: vec![json!({"part": "many-guards", "build": build_name(), "program": format!("New(0,1); Load(0) x {}; Swap(0,2); release all, one through Guard::into_inner", slots + 2)})],
        detail: json!({"part": "many-guards", "build": build_name(), "programs": cases, "api_calls": steps, "guards_held": [slots, slots + 1, slots + 2]}),
    };
    if let Some((path, msg)) = viol {
        o.violations.push(SeqViol { case: format!("{:?}", path), message: msg, replay: json!({"kind": "seq", "part": "api-state-search", "build": build_name(), "path": path}) });
    }
    o
}

fn c15() -> SeqOut {
    let table = seq_c15::table();
    let total = table.len() as u64;
    let mut o = SeqOut {
        present: true,
        states: total,
        transitions: total * 6,
        traces: total,
        evaluations: total,
        distinct: total,
        exhaustive: true,
        violations: vec![],
        samples: table
            .iter()
            .filter(|c| c.state != "unique")
            .take(4)
            .map(|c| json!({"kind": c.kind, "pointee": c.pointee, "state": c.state, "law": c.law, "ok": c.ok}))
            .collect(),
        detail: json!({
            "part": "pointer-kind-laws",
            "elements": total,
            "kinds": ["Arc", "Rc", "Option<Arc>", "Option<Rc>", "sync::Weak", "rc::Weak", "Option<Option<Arc>>"],
            "pointees": ["u8", "usize", "String", "ZST", "align64", "ZST-align128"],
            "laws": ["round-trip", "as_ptr==into_ptr(clone)", "inc/dec", "container-round-trip", "distinct-addresses", "weak-does-not-keep-alive"],
            "failed": table.iter().filter(|c| !c.ok).count(),
        }),
    };
    for c in table.iter().filter(|c| !c.ok) {
        let case = format!("kind={} pointee={} state={} law={}", c.kind, c.pointee, c.state, c.law);
        o.violations.push(SeqViol { case: case.clone(), message: c.detail.clone(), replay: json!({"kind": "seq", "part": "pointer-kind-laws", "case": case}) });
    }
    o
}

fn merge(mut a: SeqOut, b: SeqOut) -> SeqOut {
    if !b.present {
        return a;
    }
    if !a.present {
        return b;
    }
    a.states += b.states;
    a.transitions += b.transitions;
    a.traces += b.traces;
    a.evaluations += b.evaluations;
    a.distinct += b.distinct;
    a.exhaustive &= b.exhaustive;
    a.violations.extend(b.violations);
    a.samples.extend(b.samples);
    a.detail = match (a.detail, b.detail) {
        (serde_json::Value::Array(mut x), y) => {
            x.push(y);
            serde_json::Value::Array(x)
        }
        (x, y) => json!([x, y]),
    };
    a
}

/// The sequential part of property `p` in this build configuration.
pub fn run(p: &str, tier: Tier) -> SeqOut {
    match p {
        "C14" | "C02" => merge(api_search(tier, false), many_guards()),
        "C05" => api_search(tier, true),
        "C10" => many_guards(),
        "C15" => c15(),
        "C12" => from_enum(
            "cross-kind-aliasing",
            seq_more::c12_cross_kind(),
            true,
            "every pair (pointer kind of the reading container, pointer kind of the written container) over one allocation: Arc, Option<Arc>, Weak; 1 and S+1 guards; counts after the guards are gone",
        ),
        "C16" => from_enum(
            "cache-programs",
            seq_more::c16(if tier == Tier::Quick { 6 } else { 8 }),
            true,
            "every program over {store None/1/2/3, load of a cache / its clone / a mapped cache, clone the cache} up to the depth, under DefaultStrategy and FillFastSlots; each load must return the current value and every strong count must equal pool + container + caches holding it",
        ),
        "C17" => from_enum(
            "projection-chains",
            seq_more::c17(if tier == Tier::Quick { 3 } else { 5 }),
            true,
            "every projection chain (container as Access<Arc<T>> and Access<T>, &container, Arc<container>, Map, Map of Map, ArcSwapAny::map, Box<dyn DynAccess>, AccessConvert, Constant) x number of stores before the first and between the derefs of one guard; snapshot identity, liveness (Weak probe) and freshness of the next load",
        ),
        "C18" => from_enum(
            "panic-injection",
            seq_more::c18(),
            true,
            "every injection point (rcu closure, rcu closure after creating its result, destructor of the value replaced by store, destructor of the rejected new value of a failing compare_and_swap, destructor run by the last guard, Map projection) x guards held (0, 1, S+1) x strategy; afterwards container value, counts, slots and follow-up operations are checked",
        ),
        "C20" => from_enum(
            "serde-value-grammar",
            seq_more::c20(if tier == Tier::Quick { 1 } else { 2 }),
            true,
            "every value of the grammar {unit, bool, u8, i64, String, Option, Vec, struct} up to the nesting depth x {ArcSwap, ArcSwapOption Some/None} x {DefaultStrategy, FillFastSlots}: JSON of the container equals JSON of its value, round trip preserves the value with strong count 1 (+handle); serde_test token streams for six shapes",
        ),
        _ => SeqOut::default(),
    }
}

pub fn has_seq_part(p: &str) -> bool {
    matches!(p, "C02" | "C05" | "C10" | "C12" | "C14" | "C15" | "C16" | "C17" | "C18" | "C20")
}

/// C19: the truth table printed by the typecheck crate (one rustc run), evaluated here.
pub fn c19(table_path: &str) -> SeqOut {
    let txt = match std::fs::read_to_string(table_path) {
        Ok(t) => t,
        Err(e) => {
            return SeqOut {
                present: true,
                violations: vec![SeqViol { case: "table".into(), message: format!("MACHINERY cannot read {}: {}", table_path, e), replay: json!(null) }],
                ..Default::default()
            }
        }
    };
    let mut rows = 0u64;
    let mut viol = Vec::new();
    let mut samples = Vec::new();
    let mut distinct = std::collections::HashSet::new();
    for line in txt.lines() {
        let f: Vec<&str> = line.split('\t').collect();
        if f.len() != 6 {
            continue;
        }
        rows += 1;
        let (w, p) = (f[0], f[1]);
        let b = |s: &str| s == "true";
        let (ws, wy, ps, py) = (b(f[2]), b(f[3]), b(f[4]), b(f[5]));
        distinct.insert((w.to_string(), ws, wy, ps, py));
        if samples.len() < 4 && (rows % 67 == 3) {
            samples.push(json!({"wrapper": w, "pointer": p, "wrapper_send": ws, "wrapper_sync": wy, "pointer_send": ps, "pointer_sync": py}));
        }
        let declared = w.contains("+Send+Sync");
        let never = w.starts_with("DynGuard") || w == "AccessConvert<Box<dyn DynAccess<P>>>";
        let container = w.starts_with("ArcSwapAny") || w.starts_with("Cache") || w.starts_with("MapCache") || w.starts_with("Map<");
        let mut bad = Vec::new();
        if !declared {
            if ws && !ps {
                bad.push("it is Send although the pointer it stores is not Send".to_string());
            }
            if wy && !py {
                bad.push("it is Sync although the pointer it stores is not Sync".to_string());
            }
            if container && wy && !ps {
                bad.push("it is Sync (so values can be moved in and out through a shared reference) although the pointer is not Send".to_string());
            }
        }
        if ps && py && !never && !(ws && wy) {
            bad.push(format!("the pointer is Send+Sync but the wrapper is Send={} Sync={}", ws, wy));
        }
        for m in bad {
            let case = format!("{} with P = {}", w, p);
            viol.push(SeqViol { case: case.clone(), message: m, replay: json!({"kind": "typecheck", "case": case, "row": line}) });
        }
    }
    let mut o = SeqOut {
        present: true,
        states: rows.max(1),
        transitions: (rows * 2).max(1),
        traces: rows,
        evaluations: rows,
        distinct: distinct.len() as u64,
        exhaustive: rows > 0,
        violations: viol,
        samples,
        detail: json!({
            "part": "send-sync-truth-table",
            "instantiations": rows,
            "trait_queries": rows * 4,
            "deciding_step": "rustc's trait resolution evaluates `W: Send`, `W: Sync`, `P: Send`, `P: Sync` as constants for every instantiation; the oracle then checks W: Send => P: Send, W: Sync => P: Sync (and P: Send for containers), and P: Send+Sync => W: Send+Sync",
        }),
    };
    if rows == 0 {
        o.violations.push(SeqViol { case: "table".into(), message: "MACHINERY the typecheck program printed no rows".into(), replay: json!(null) });
    }
    o
}
