//! Further engine harness families: guards held across writes, compare_and_swap, rcu,
//! consuming the container under live guards, several containers, guard life cycle, thread
//! churn, use after thread-local teardown, generation wrap-around.

use std::cell::RefCell;
use std::collections::HashMap;
use std::rc::Rc;
use std::sync::Arc;

use arc_swap::Guard;
use arc_swap_verif_rt as rt;

use crate::api::*;
use crate::h_core::{epilogue_p, prologue, release};
use crate::world;

fn filler<S: Strat>() -> Arc<Cont<S>> {
    Cont::<S>::new(9, V::new(90))
}

// ------------------------------------------------------------------------------------------
// held(g): the reader already holds g guards on the container's value when the writer comes.

/// `g` guards (the g-th and later ones beyond the fast slots are full references), then
/// R{load; deref all; release them in a chosen order, one through Guard::into_inner} || W{store}
pub fn held<S: Strat>(g: usize, second_store: bool) {
    let c = Cont::<S>::new(0, V::new(1));
    let fil = filler::<S>();
    let r = {
        let (c, fil) = (c.clone(), fil.clone());
        rt::spawn(move || {
            let held0 = prologue(&fil, false);
            let mut guards: Vec<Guard<V, S>> = Vec::new();
            rt::quiet(|| {
                for _ in 0..g {
                    guards.push(c.sw.load());
                }
                rt::barrier(2);
            });
            let fresh = load(&c);
            let l = fresh.peek_label();
            use_value(&fresh, l, "guard taken while others are held");
            for x in &guards {
                use_value(x, 1, "guard held across a write");
            }
            // release order: enumerated
            let order = rt::choose(2);
            if order == 1 {
                guards.reverse();
            }
            let mut promoted = Vec::new();
            for (i, x) in guards.into_iter().enumerate() {
                if i == 0 {
                    let v = guard_into_inner(x);
                    use_value(&v, 1, "promoted guard");
                    promoted.push(v);
                } else {
                    drop_guard(x);
                }
            }
            drop_guard(fresh);
            release(held0);
            promoted
        })
    };
    let w = {
        let (c, fil) = (c.clone(), fil.clone());
        rt::spawn(move || {
            // what goes wrong inside a write (the replaced value dying before the write is done
            // with it) also counts for C04
            rt::set_thread_tag("C04");
            let h = prologue(&fil, false);
            rt::quiet(|| rt::barrier(2));
            store(&c, V::new(11));
            if second_store {
                store(&c, V::new(12));
            }
            release(h);
        })
    };
    rt::join_all();
    let kept = r.join().unwrap_or_default();
    w.join();
    epilogue_p(vec![c], fil, kept, false, "C03");
}

// ------------------------------------------------------------------------------------------
// compare_and_swap

#[derive(Clone, Copy, Debug, PartialEq, Eq)]
pub enum CasKind {
    /// C{cas(a => n)} || R{load, deref, drop}
    VsReader,
    /// C{cas(a => n)} || W{store b; store a (the same object again)}  (A-B-A)
    Aba,
    /// C1{cas(a => n1)} || C2{cas(a => n2)}: exactly one wins
    Two,
    /// C{cas(x => n)} with x not stored || W{store b}: always fails, n is released
    Miss,
}

pub fn cas_h<S: Strat>(kind: CasKind, fill: bool) {
    // Only compare_and_swap and plain loads/swaps run here: whatever goes wrong is (also) a
    // failure of compare_and_swap to be the atomic operation C05 describes.
    rt::set_context_tag("C05");
    let a = V::new(1);
    let a_main = rt::quiet(|| a.clone());
    let c = Cont::<S>::new(0, a);
    let fil = filler::<S>();
    let mut hs: Vec<rt::JoinHandle<Vec<V>>> = Vec::new();
    let nthreads = 2;
    // the compare-and-swapping thread
    {
        let (c, fil) = (c.clone(), fil.clone());
        let cur = rt::quiet(|| if kind == CasKind::Miss { V::new(5) } else { a_main.clone() });
        hs.push(rt::spawn(move || {
            let h = prologue(&fil, fill);
            rt::quiet(|| rt::barrier(nthreads));
            let g = cas(&c, &cur, V::new(21));
            let l = g.peek_label();
            use_value(&g, l, "compare_and_swap result");
            let old = guard_into_inner(g);
            let keep = if kind == CasKind::VsReader {
                // Against a plain reader the replaced value dies as early as it can.
                drop(old);
                drop(cur);
                Vec::new()
            } else {
                vec![old, cur]
            };
            release(h);
            keep
        }));
    }
    match kind {
        CasKind::VsReader => {
            let (c, fil) = (c.clone(), fil.clone());
            hs.push(rt::spawn(move || {
                let h = prologue(&fil, fill);
                rt::quiet(|| rt::barrier(nthreads));
                let g = load(&c);
                let l = g.peek_label();
                use_value(&g, l, "guard");
                drop_guard(g);
                release(h);
                vec![]
            }));
        }
        CasKind::Aba => {
            let (c, fil) = (c.clone(), fil.clone());
            let a2 = rt::quiet(|| a_main.clone());
            hs.push(rt::spawn(move || {
                let h = prologue(&fil, false);
                rt::quiet(|| rt::barrier(nthreads));
                let x = swap(&c, V::new(31));
                let y = swap(&c, a2);
                release(h);
                vec![x, y]
            }));
        }
        CasKind::Two => {
            let (c, fil) = (c.clone(), fil.clone());
            let cur = rt::quiet(|| a_main.clone());
            hs.push(rt::spawn(move || {
                let h = prologue(&fil, fill);
                rt::quiet(|| rt::barrier(nthreads));
                let g = cas(&c, &cur, V::new(22));
                let l = g.peek_label();
                use_value(&g, l, "compare_and_swap result");
                let old = guard_into_inner(g);
                release(h);
                vec![old, cur]
            }));
        }
        CasKind::Miss => {
            let (c, fil) = (c.clone(), fil.clone());
            hs.push(rt::spawn(move || {
                let h = prologue(&fil, false);
                rt::quiet(|| rt::barrier(nthreads));
                store(&c, V::new(31));
                release(h);
                vec![]
            }));
        }
    }
    rt::quiet(|| drop(a_main));
    rt::join_all();
    let mut kept = Vec::new();
    for h in hs {
        kept.extend(h.join().unwrap_or_default());
    }
    // C05 specifics on the recorded calls: success iff result == current; a failed call leaves
    // the container alone (checked by the history oracle) and its `new` is gone (count oracle).
    epilogue_p(vec![c], fil, kept, true, "C05");
}

// ------------------------------------------------------------------------------------------
// rcu

/// Labels of rcu-created values: counter value, creating thread, attempt.
fn rcu_label(value: u64, thread: u64, attempt: u64) -> u64 {
    (value << 8) | (thread << 4) | attempt
}
fn rcu_value(label: u64) -> u64 {
    if label < 256 {
        label
    } else {
        label >> 8
    }
}

#[derive(Clone, Copy, Debug, PartialEq, Eq)]
pub enum RcuKind {
    /// two threads each rcu(+1)
    Two,
    /// rcu(+1) || store
    VsStore,
    /// rcu(+1) || swap
    VsSwap,
    /// rcu(+1) || reader
    VsReader,
    /// rcu whose closure loads from the same and from another container and runs a nested rcu there
    Reentrant,
}

fn rcu_inc<S: Strat>(c: &Cont<S>, me: u64) -> V {
    let attempt = std::cell::Cell::new(0u64);
    rcu(c, |v: &V| {
        let l = v.peek_label();
        use_value(v, l, "value passed to the rcu closure");
        let a = attempt.get();
        attempt.set(a + 1);
        V::new(rcu_label(rcu_value(l) + 1, me, a))
    })
}

pub fn rcu_h<S: Strat>(kind: RcuKind, fill: bool) {
    rt::set_context_tag("C06");
    let c = Cont::<S>::new(0, V::new(1));
    let other = Cont::<S>::new(1, V::new(50));
    let fil = filler::<S>();
    let mut hs: Vec<rt::JoinHandle<Vec<V>>> = Vec::new();
    let n = if kind == RcuKind::Reentrant { 2 } else { 2 };
    {
        let (c, fil, other) = (c.clone(), fil.clone(), other.clone());
        hs.push(rt::spawn(move || {
            let h = prologue(&fil, fill);
            rt::quiet(|| rt::barrier(n));
            let old = if kind == RcuKind::Reentrant {
                let attempt = std::cell::Cell::new(0u64);
                rcu(&c, |v: &V| {
                    let a = attempt.get();
                    attempt.set(a + 1);
                    // re-entrancy: the closure reads the same container, another one, and updates the other
                    let same = load(&c);
                    let _ = same.get();
                    let o = load(&other);
                    let _ = o.get();
                    drop(o);
                    let prev = rcu(&other, |x: &V| V::new(rcu_label(rcu_value(x.peek_label()) + 1, 3, a)));
                    drop(prev);
                    drop(same);
                    V::new(rcu_label(rcu_value(v.peek_label()) + 1, 1, a))
                })
            } else {
                rcu_inc(&c, 1)
            };
            let l = old.peek_label();
            use_value(&old, l, "rcu result");
            let keep = if kind == RcuKind::VsReader {
                // Against a plain reader the replaced value dies at once: a guard the reader
                // obtained without the writer noticing its debt is then a use after free.
                drop(old);
                Vec::new()
            } else {
                vec![old]
            };
            release(h);
            keep
        }));
    }
    {
        let (c, fil) = (c.clone(), fil.clone());
        hs.push(rt::spawn(move || {
            let h = prologue(&fil, false);
            rt::quiet(|| rt::barrier(n));
            let mut out = Vec::new();
            match kind {
                RcuKind::Two => {
                    let old = rcu_inc(&c, 2);
                    let l = old.peek_label();
                    use_value(&old, l, "rcu result");
                    out.push(old);
                }
                RcuKind::VsStore | RcuKind::Reentrant => store(&c, V::new(rcu_label(100, 2, 0))),
                RcuKind::VsSwap => {
                    let old = swap(&c, V::new(rcu_label(100, 2, 0)));
                    let l = old.peek_label();
                    use_value(&old, l, "swap result");
                    out.push(old);
                }
                RcuKind::VsReader => {
                    let g = load(&c);
                    let l = g.peek_label();
                    use_value(&g, l, "guard");
                    drop_guard(g);
                }
            }
            release(h);
            out
        }));
    }
    rt::join_all();
    let mut kept = Vec::new();
    for h in hs {
        kept.extend(h.join().unwrap_or_default());
    }
    // No update is lost: the final counter equals what the successful writes in history order give.
    let fin = rt::quiet(|| c.sw.load_full());
    let fv = rcu_value(fin.peek_label());
    let expect: Vec<u64> = match kind {
        RcuKind::Two => vec![3],
        RcuKind::VsReader => vec![2],
        // store/swap of 100 either before the increment (101) or after it (100)
        RcuKind::VsStore | RcuKind::VsSwap | RcuKind::Reentrant => vec![100, 101],
    };
    if !expect.contains(&fv) && !rt::draining() {
        rt::violation(
            "C06",
            "lost-update",
            format!("after the rcu calls completed the counter is {} (expected one of {:?}): an update was lost or duplicated; history {:?}", fv, expect, world::fmt_history(Some(0))),
        );
    }
    world::observe(fv);
    rt::quiet(|| drop(fin));
    epilogue_p(vec![c, other], fil, kept, true, "C06");
}

// ------------------------------------------------------------------------------------------
// consume: the container is consumed or dropped while another thread still holds guards

pub fn consume<S: Strat>(g: usize, into: bool) {
    let c = Cont::<S>::new(0, V::new(1));
    let fil = filler::<S>();
    let r = {
        let fil = fil.clone();
        let c2 = c.clone();
        rt::spawn(move || {
            let h = prologue(&fil, false);
            let mut guards: Vec<Guard<V, S>> = Vec::new();
            rt::quiet(|| {
                for _ in 0..g {
                    guards.push(c2.sw.load());
                }
                drop(c2);
                rt::barrier(2);
            });
            // the container may be gone at any point from here on
            for x in &guards {
                use_value(x, 1, "guard outliving its container");
            }
            let mut promoted = Vec::new();
            for (i, x) in guards.into_iter().enumerate() {
                if i % 2 == 0 {
                    drop_guard(x);
                } else {
                    let v = guard_into_inner(x);
                    use_value(&v, 1, "promoted guard outliving its container");
                    promoted.push(v);
                }
            }
            release(h);
            promoted
        })
    };
    rt::quiet(|| rt::barrier(2));
    let mut kept = Vec::new();
    if into {
        let v = into_inner(c);
        use_value(&v, 1, "into_inner result");
        kept.push(v);
    } else {
        drop_container(c);
    }
    rt::join_all();
    kept.extend(r.join().unwrap_or_default());
    for v in &kept {
        use_value(v, 1, "handle after everything else is gone");
    }
    let mut owners: HashMap<u64, usize> = HashMap::new();
    owners.insert(1, kept.len());
    owners.insert(90, 1);
    world::check_counts::<1>(&owners, "after the container was consumed and all guards released");
    for v in kept {
        drop_value(v);
    }
    rt::quiet(|| drop_container(fil));
}

// ------------------------------------------------------------------------------------------
// iso: two containers sharing the per-thread bookkeeping

/// R reads A on its path || W writes B (|| WA writes A). `share`: the same value object is
/// stored in A and B.
pub fn iso<S: Strat>(fill: bool, writer_a: bool, share: bool) {
    let va = V::new(1);
    let vb = if share { rt::quiet(|| va.clone()) } else { V::new(2) };
    let a = Cont::<S>::new(0, va);
    let b = Cont::<S>::new(1, vb);
    let fil = filler::<S>();
    let n = 2 + writer_a as usize;
    let mut hs: Vec<rt::JoinHandle<Vec<V>>> = Vec::new();
    {
        let (a, fil) = (a.clone(), fil.clone());
        hs.push(rt::spawn(move || {
            let h = prologue(&fil, fill);
            rt::quiet(|| rt::barrier(n));
            let g = load(&a);
            let l = g.peek_label();
            use_value(&g, l, "guard from A");
            // provenance: only values stored in A may come out of A
            if ![1u64, 11].contains(&l) && !rt::draining() {
                rt::violation("C12", "provenance", format!("a load from container A returned value #{} which was never stored in A", l));
            }
            drop_guard(g);
            release(h);
            vec![]
        }));
    }
    {
        let (b, fil) = (b.clone(), fil.clone());
        hs.push(rt::spawn(move || {
            let h = prologue(&fil, false);
            rt::quiet(|| rt::barrier(n));
            let old = swap(&b, V::new(21));
            let l = old.peek_label();
            use_value(&old, l, "swap result from B");
            release(h);
            vec![old]
        }));
    }
    if writer_a {
        let (a, fil) = (a.clone(), fil.clone());
        hs.push(rt::spawn(move || {
            let h = prologue(&fil, false);
            rt::quiet(|| rt::barrier(n));
            store(&a, V::new(11));
            release(h);
            vec![]
        }));
    }
    rt::join_all();
    let mut kept = Vec::new();
    for h in hs {
        kept.extend(h.join().unwrap_or_default());
    }
    epilogue_p(vec![a, b], fil, kept, false, "C12");
}

/// Two containers of *different pointee types*: a mis-directed help or debt payment shows up as a
/// type-tag violation instead of silent corruption.
pub fn iso_types<S: Strat>(fill: bool)
where
    S: arc_swap::strategy::Strategy<V2> + arc_swap::strategy::CaS<V2>,
{
    let a = Cont::<S>::new(0, V::new(1));
    let b: Arc<arc_swap::ArcSwapAny<V2, S>> = Arc::new(arc_swap::ArcSwapAny::with_strategy(V2::new(2), S::default()));
    let fil = filler::<S>();
    let r = {
        let (a, fil) = (a.clone(), fil.clone());
        rt::spawn(move || {
            let h = prologue(&fil, fill);
            rt::quiet(|| rt::barrier(2));
            let g = load(&a);
            let l = g.peek_label();
            use_value(&g, l, "guard from A");
            drop_guard(g);
            let v = load_full(&a);
            let l = v.peek_label();
            use_value(&v, l, "load_full from A");
            drop_value(v);
            release(h);
        })
    };
    let w = {
        let (b, fil) = (b.clone(), fil.clone());
        rt::spawn(move || {
            let h = prologue(&fil, false);
            rt::quiet(|| rt::barrier(2));
            rt::call_begin("store(B)", "C09", WRITE_CAP);
            b.store(V2::new(22));
            rt::call_end();
            rt::call_begin("swap(B)", "C09", WRITE_CAP);
            let old = b.swap(V2::new(23));
            rt::call_end();
            let _ = old.get();
            drop(old);
            release(h);
        })
    };
    rt::join_all();
    r.join();
    w.join();
    rt::quiet(|| {
        let g = b.load();
        let l = g.get();
        if l != 23 && !rt::draining() {
            rt::violation("C12", "provenance", format!("container B ends with value #{} instead of #23", l));
        }
        drop(g);
        match Arc::try_unwrap(b) {
            Ok(b) => drop(b),
            Err(_) => panic!("harness bug"),
        }
    });
    epilogue_p(vec![a], fil, vec![], false, "C12");
}

// ------------------------------------------------------------------------------------------
// guard life cycle (C10)

/// T1 takes `g` guards and exits (its node goes to cooldown with the debts still in its slots);
/// the guards travel to T2. Then, concurrently: T3 starts (claims the released node) and loads,
/// W stores, T2 uses and drops the guards. `order`: what main does with the container at the end.
pub fn guard_life<S: Strat>(g: usize, with_writer: bool) {
    rt::set_context_tag("C10");
    let c = Cont::<S>::new(0, V::new(1));
    let fil = filler::<S>();
    let shared: Rc<RefCell<Vec<Guard<V, S>>>> = Rc::new(RefCell::new(Vec::new()));
    // T2 (user of the guards) and W own their debt nodes before the creator T1 exits, so nobody
    // adopts T1's node (it still carries the debts of the guards) except the late thread T3.
    let n = 2 + with_writer as usize;
    let t2 = {
        let (shared, fil) = (shared.clone(), fil.clone());
        rt::spawn(move || {
            let h = prologue(&fil, false);
            rt::quiet(|| rt::barrier(n));
            let gs: Vec<Guard<V, S>> = std::mem::take(&mut *shared.borrow_mut());
            for x in &gs {
                use_value(x, 1, "guard moved to another thread after its creator exited");
            }
            let mut promoted = Vec::new();
            for (i, x) in gs.into_iter().enumerate() {
                if i == 1 {
                    let v = guard_into_inner(x);
                    use_value(&v, 1, "promoted moved guard");
                    promoted.push(v);
                } else {
                    drop_guard(x);
                }
            }
            release(h);
            promoted
        })
    };
    let w = if with_writer {
        let (c, fil) = (c.clone(), fil.clone());
        Some(rt::spawn(move || {
            let h = prologue(&fil, false);
            rt::quiet(|| rt::barrier(n));
            store(&c, V::new(11));
            release(h);
        }))
    } else {
        None
    };
    // T1 takes the guards, hands them over (the barrier is the hand-over synchronisation) and exits.
    let t1 = {
        let (c, fil, shared) = (c.clone(), fil.clone(), shared.clone());
        rt::spawn(move || {
            let h = prologue(&fil, false);
            rt::quiet(|| {
                let mut guards: Vec<Guard<V, S>> = Vec::new();
                for _ in 0..g {
                    guards.push(c.sw.load());
                }
                *shared.borrow_mut() = guards;
            });
            release(h);
            rt::quiet(|| rt::barrier(n));
            // thread exit: the node goes to cooldown with the debts still in its slots
        })
    };
    // T3 never synchronises with T1 after the guards were taken: it starts whenever the
    // schedule says, claims whatever node is free (T1's once it is released) and loads twice.
    let t3 = {
        let c = c.clone();
        rt::spawn(move || {
            let a = load(&c);
            let l = a.peek_label();
            use_value(&a, l, "guard of a thread that may reuse a released node");
            let b = load(&c);
            let l2 = b.peek_label();
            use_value(&b, l2, "second guard");
            drop_guard(a);
            drop_guard(b);
        })
    };
    rt::join_all();
    let kept = t2.join().unwrap_or_default();
    t1.join();
    t3.join();
    if let Some(w) = w {
        w.join();
    }
    let nodes = world::node_count();
    // At most n + 2 threads are ever alive at once (T1, T2, T3 and W).
    if nodes > n + 2 && !rt::draining() {
        rt::violation("C11", "nodes", format!("{} debt nodes exist although at most {} threads were ever alive at once", nodes, n + 2));
    }
    epilogue_p(vec![c], fil, kept, true, "C03");
}

// ------------------------------------------------------------------------------------------
// thread churn (C11)

/// `rounds` threads one after another, each {load, store, exit}: the node of the first is reused.
pub fn churn_seq<S: Strat>(rounds: usize) {
    let c = Cont::<S>::new(0, V::new(1));
    let fil = filler::<S>();
    for r in 0..rounds {
        let c2 = c.clone();
        let h = rt::spawn(move || {
            let g = load(&c2);
            let l = g.peek_label();
            use_value(&g, l, "guard");
            store(&c2, V::new(10 + r as u64));
            drop_guard(g);
        });
        h.join();
        let nodes = world::node_count();
        if nodes != 1 && !rt::draining() {
            rt::violation(
                "C11",
                "nodes",
                format!("after {} strictly sequential threads there are {} debt nodes (bookkeeping of exited threads is not reused)", r + 1, nodes),
            );
        }
    }
    epilogue_p(vec![c], fil, vec![], false, "C03");
}

/// T1 exits while T2 starts (claims or allocates a node) while W walks the list.
pub fn churn_par<S: Strat>() {
    let c = Cont::<S>::new(0, V::new(1));
    let fil = filler::<S>();
    let t1 = {
        let (c, fil) = (c.clone(), fil.clone());
        rt::spawn(move || {
            let h = prologue(&fil, false);
            release(h);
            rt::quiet(|| rt::barrier(3));
            let g = load(&c);
            let l = g.peek_label();
            use_value(&g, l, "guard");
            drop_guard(g);
            // thread exit (TLS teardown -> cooldown) is part of the race
        })
    };
    let t2 = {
        let c = c.clone();
        rt::spawn(move || {
            rt::quiet(|| rt::barrier(3));
            // first use of the crate on this thread: Node::get races with T1's exit and W's walk
            let v = load_full(&c);
            let l = v.peek_label();
            use_value(&v, l, "load_full");
            drop_value(v);
        })
    };
    let w = {
        let (c, fil) = (c.clone(), fil.clone());
        rt::spawn(move || {
            let h = prologue(&fil, false);
            release(h);
            rt::quiet(|| rt::barrier(3));
            store(&c, V::new(11));
        })
    };
    rt::join_all();
    t1.join();
    t2.join();
    w.join();
    let nodes = world::node_count();
    if nodes > 3 && !rt::draining() {
        rt::violation("C11", "nodes", format!("{} debt nodes for 3 threads", nodes));
    }
    epilogue_p(vec![c], fil, vec![], false, "C03");
}

/// T0 has exited (its node is cooling down); X and Y, both new to the crate, start at the same
/// time and race for that node while W stores. Each takes a guard, uses it and lets it go.
pub fn churn_two<S: Strat>(with_rcu: bool, with_map: bool) {
    // Thread churn is the subject: whatever fails here is (also) a C11 failure, and what is at
    // stake when two threads end up with one node is the protection of their guards (C10).
    rt::set_context_tag(if with_rcu { "C11,C06" } else if with_map { "C11,C17" } else { "C11,C10" });
    let c = Cont::<S>::new(0, V::new(1));
    let fil = filler::<S>();
    let w = {
        let (c, fil) = (c.clone(), fil.clone());
        rt::spawn(move || {
            // owns its node before T0 exits, so it cannot adopt T0's
            let h = prologue(&fil, false);
            release(h);
            rt::quiet(|| rt::barrier(3));
            if with_rcu {
                let old = rcu_inc(&c, 2);
                drop_value(old);
            } else {
                store(&c, V::new(11));
            }
        })
    };
    let t0 = {
        let (c, fil) = (c.clone(), fil.clone());
        rt::spawn(move || {
            rt::quiet(|| {
                let h = prologue(&fil, false);
                release(h);
                let g = c.sw.load();
                drop(g);
            });
        })
    };
    t0.join();
    let mut hs = Vec::new();
    for i in 0..2u64 {
        let c = c.clone();
        hs.push(rt::spawn(move || {
            rt::quiet(|| rt::barrier(3));
            // first use of the crate on this thread, inside the race
            if with_rcu {
                let old = rcu_inc(&c, 3 + i);
                let l = old.peek_label();
                use_value(&old, l, "rcu result of a thread that has just claimed its node");
                drop_value(old);
            } else if with_map {
                use arc_swap::access::{Access, Map};
                let m = Map::new(&c.sw, |v: &V| v);
                rt::call_begin("Map::load", "C08", LOAD_CAP);
                let g = Access::load(&m);
                rt::call_end();
                let first = g.peek_label();
                for k in 0..2 {
                    let got = g.get();
                    if got != first && !rt::draining() {
                        rt::violation("C17", "snapshot", format!("a projection guard taken on value #{} reads #{} at its deref number {}", first, got, k + 1));
                    }
                }
                world::observe(first + 100 * i);
                rt::call_begin("drop(MapGuard)", "C09", DROP_CAP);
                drop(g);
                rt::call_end();
            } else {
                let g = load(&c);
                let l = g.peek_label();
                use_value(&g, l, "guard of a thread that has just claimed its node");
                drop_guard(g);
            }
        }));
    }
    rt::join_all();
    for h in hs {
        h.join();
    }
    w.join();
    let nodes = world::node_count();
    // W's, X's, Y's and T0's (which may stay in cooldown while W walks through it)
    if nodes > 4 && !rt::draining() {
        rt::violation("C11", "nodes", format!("{} debt nodes for 4 threads", nodes));
    }
    epilogue_p(vec![c], fil, vec![], false, "C03");
}

/// A guard migrates: A loads a guard and hands it to B (spawned by A, so that the hand-over is
/// ordered), B reads through it and drops it, i.e. returns the debt to A's slot from another
/// thread. A meanwhile keeps loading until its slot rotation comes back to that slot. C replaces
/// the value and thereby destroys the old one. B's reads must happen before that destruction
/// although the only path from B to C leads through A's slot.
pub fn migrate<S: Strat>(fill: bool) {
    rt::set_context_tag("C07");
    let c = Cont::<S>::new(0, V::new(1));
    let fil = filler::<S>();
    let a = {
        let (c, fil) = (c.clone(), fil.clone());
        rt::spawn(move || {
            let h = prologue(&fil, fill);
            rt::quiet(|| rt::barrier(2));
            let g = load(&c);
            let b = rt::spawn(move || {
                let l = g.peek_label();
                use_value(&g, l, "guard used by another thread than the one that loaded it");
                drop_guard(g);
            });
            // as many more leases as there are fast slots: the rotation passes the slot B empties
            for _ in 0..SLOTS {
                let g = load(&c);
                let l = g.peek_label();
                use_value(&g, l, "guard");
                drop_guard(g);
            }
            b.join();
            release(h);
        })
    };
    let w = {
        let (c, fil) = (c.clone(), fil.clone());
        rt::spawn(move || {
            let h = prologue(&fil, false);
            rt::quiet(|| rt::barrier(2));
            store(&c, V::new(11));
            release(h);
        })
    };
    rt::join_all();
    a.join();
    w.join();
    epilogue_p(vec![c], fil, vec![], false, "C03");
}

/// Operations after the thread's local storage is gone (temporary node path), concurrent with a writer.
pub fn tls_gone<S: Strat>(with_writer: bool) {
    let c = Cont::<S>::new(0, V::new(1));
    let fil = filler::<S>();
    let n = 1 + with_writer as usize;
    let t = {
        let (c, fil) = (c.clone(), fil.clone());
        rt::spawn(move || {
            let h = prologue(&fil, false);
            release(h);
            rt::quiet(|| rt::barrier(n));
            rt::tls_teardown();
            let g = load(&c);
            let l = g.peek_label();
            use_value(&g, l, "guard taken after TLS teardown");
            let old = swap(&c, V::new(21));
            let lo = old.peek_label();
            use_value(&old, lo, "swap result after TLS teardown");
            drop_guard(g);
            let v = load_full(&c);
            let lv = v.peek_label();
            use_value(&v, lv, "load_full after TLS teardown");
            drop_value(v);
            vec![old]
        })
    };
    let w = if with_writer {
        let (c, fil) = (c.clone(), fil.clone());
        Some(rt::spawn(move || {
            let h = prologue(&fil, false);
            rt::quiet(|| rt::barrier(n));
            store(&c, V::new(11));
            release(h);
        }))
    } else {
        None
    };
    rt::join_all();
    let kept = t.join().unwrap_or_default();
    if let Some(w) = w {
        w.join();
    }
    epilogue_p(vec![c], fil, kept, false, "C03");
}

/// A pointee whose destructor itself uses a container, destroyed during thread-local teardown
/// order variations: the destructor runs inside a store by a thread whose TLS is already gone.
pub fn dtor_uses_container<S: Strat>() {
    let c = Cont::<S>::new(0, V::new(1));
    let other = Cont::<S>::new(1, V::new(50));
    let fil = filler::<S>();
    {
        let other = other.clone();
        crate::varc::reg(|r| {
            r.on_destroy = Some(Rc::new(move |label| {
                if label == 1 {
                    // user code inside the library: runs while `store` drops the replaced value
                    let g = other.sw.load();
                    let _ = g.get();
                    drop(g);
                    other.sw.store(V::new(51));
                }
            }))
        });
    }
    let t = {
        let (c, fil) = (c.clone(), fil.clone());
        rt::spawn(move || {
            let h = prologue(&fil, false);
            release(h);
            let torn = rt::choose(2) == 1;
            if torn {
                rt::tls_teardown();
            }
            store(&c, V::new(11));
        })
    };
    rt::join_all();
    t.join();
    crate::varc::reg(|r| r.on_destroy = None);
    let g = rt::quiet(|| other.sw.load());
    if g.get() != 51 && !rt::draining() {
        rt::violation("C11", "dtor", "the store executed from a pointee destructor did not take effect".into());
    }
    rt::quiet(|| drop(g));
    world::world(|w| {
        w.initial.insert(1, 51);
    });
    epilogue_p(vec![c, other], fil, vec![], false, "C03");
}

// ------------------------------------------------------------------------------------------
// generation wrap-around (C13)

/// The reader's helping generation counter is preset `ahead` transactions before the wrap; it
/// then performs `loads` fallback loads while a writer stores (and may help at that moment).
pub fn wrap<S: Strat>(ahead: usize, loads: usize, fill: bool, with_writer: bool) {
    // after a wrap-around every other guarantee must keep holding: any failed oracle is a C13 failure too
    rt::set_context_tag("C13");
    let c = Cont::<S>::new(0, V::new(1));
    let fil = filler::<S>();
    let n = 1 + with_writer as usize;
    let r = {
        let (c, fil) = (c.clone(), fil.clone());
        rt::spawn(move || {
            let h = prologue(&fil, fill);
            rt::quiet(|| {
                // the counter advances by 4 per fallback transaction; 0 is reached after `ahead` of them
                let gen = 0usize.wrapping_sub(4 * ahead);
                arc_swap::verif::set_generation(gen);
                rt::barrier(n);
            });
            for i in 0..loads {
                let node_before = arc_swap::verif::current_node();
                let res = std::panic::catch_unwind(std::panic::AssertUnwindSafe(|| {
                    let g = load(&c);
                    let l = g.peek_label();
                    use_value(&g, l, "guard around the generation wrap");
                    drop_guard(g);
                }));
                // The load whose transaction used the last generation before the wrap must give
                // the node up (generations repeat from here on; a helper parked since the last
                // round could otherwise hit a transaction of the new one). `i + 1 == ahead` is
                // that load on the fallback-only path, where every load is a transaction.
                if res.is_ok() && S::NAME == "nofast" && i + 1 == ahead && !rt::draining() {
                    let now = arc_swap::verif::current_node();
                    if now.is_some() && now == node_before {
                        rt::violation(
                            "C13",
                            "wrap",
                            format!("load number {} wrapped the generation counter but the thread still owns the same debt node", i + 1),
                        );
                    }
                }
                if res.is_err() {
                    let msg = rt::take_last_panic().unwrap_or_default();
                    rt::violation(
                        "C13",
                        "panic",
                        format!("load number {} panicked with the generation counter {} transaction(s) before its wrap-around: {}", i + 1, ahead, msg),
                    );
                    break;
                }
            }
            release(h);
        })
    };
    let w = if with_writer {
        let (c, fil) = (c.clone(), fil.clone());
        Some(rt::spawn(move || {
            let h = prologue(&fil, false);
            rt::quiet(|| rt::barrier(n));
            store(&c, V::new(11));
            release(h);
        }))
    } else {
        None
    };
    rt::join_all();
    r.join();
    if let Some(w) = w {
        w.join();
    }
    // a later thread claims whatever node was sent to cooldown and everything still works
    let t = {
        let c = c.clone();
        rt::spawn(move || {
            let g = load(&c);
            let l = g.peek_label();
            use_value(&g, l, "guard of a later thread");
            drop_guard(g);
        })
    };
    t.join();
    epilogue_p(vec![c], fil, vec![], false, "C03");
}

/// The *writer's* generation counter is about to wrap and its fast slots are full, so the load it
/// performs on behalf of a reader it helps (nested inside its debt walk) is the wrapping
/// fallback transaction.
pub fn wrap_nested<S: Strat>(fill_reader: bool) {
    // after a wrap-around every other guarantee must keep holding: any failed oracle is a C13 failure too
    rt::set_context_tag("C13");
    let c = Cont::<S>::new(0, V::new(1));
    let fil = filler::<S>();
    let r = {
        let (c, fil) = (c.clone(), fil.clone());
        rt::spawn(move || {
            let h = prologue(&fil, fill_reader);
            rt::quiet(|| rt::barrier(2));
            let res = std::panic::catch_unwind(std::panic::AssertUnwindSafe(|| {
                let g = load(&c);
                let l = g.peek_label();
                use_value(&g, l, "guard of a reader that may be helped");
                drop_guard(g);
            }));
            if res.is_err() {
                let msg = rt::take_last_panic().unwrap_or_default();
                rt::violation("C13", "panic", format!("a load panicked: {}", msg));
            }
            release(h);
        })
    };
    let w = {
        let (c, fil) = (c.clone(), fil.clone());
        rt::spawn(move || {
            let h = prologue(&fil, true);
            rt::quiet(|| {
                arc_swap::verif::set_generation(0usize.wrapping_sub(4));
                rt::barrier(2);
            });
            let res = std::panic::catch_unwind(std::panic::AssertUnwindSafe(|| {
                store(&c, V::new(11));
                store(&c, V::new(12));
            }));
            if res.is_err() {
                let msg = rt::take_last_panic().unwrap_or_default();
                rt::violation(
                    "C13",
                    "panic",
                    format!("a store panicked while the writer's generation counter wrapped inside the load it does for a reader it helps: {}", msg),
                );
            }
            release(h);
        })
    };
    rt::join_all();
    r.join();
    w.join();
    epilogue_p(vec![c], fil, vec![], false, "C03");
}

// ------------------------------------------------------------------------------------------
// C08 adversary: complete writes between any two steps of one load

/// Thread 1 = writer (up to `k` complete stores, scheduled by the adversary policy into the gaps
/// of the reader's call), thread 2 = reader holding `g` guards of the container and, with
/// `fill`, all remaining fast slots. The reader's load is the call under test.
pub fn adversary<S: Strat>(k: usize, g: usize, fill: bool) {
    let c = Cont::<S>::new(0, V::new(1));
    let fil = filler::<S>();
    let w = {
        let (c, fil) = (c.clone(), fil.clone());
        rt::spawn(move || {
            rt::atomic_thread();
            let h = prologue(&fil, false);
            rt::quiet(|| rt::barrier(2));
            for i in 0..k {
                store(&c, V::new(11 + i as u64));
                rt::call_boundary();
            }
            release(h);
        })
    };
    let r = {
        let (c, fil) = (c.clone(), fil.clone());
        rt::spawn(move || {
            let mut guards: Vec<Guard<V, S>> = Vec::new();
            let h = prologue(&fil, false);
            let mut h2 = Vec::new();
            rt::quiet(|| {
                for _ in 0..g {
                    guards.push(c.sw.load());
                }
                if fill {
                    for _ in 0..SLOTS {
                        h2.push(fil.sw.load());
                    }
                }
                rt::barrier(2);
            });
            let x = load(&c);
            let l = x.peek_label();
            use_value(&x, l, "guard taken under the adversary");
            let y = load_full(&c);
            let ly = y.peek_label();
            use_value(&y, ly, "load_full under the adversary");
            drop_guard(x);
            drop_value(y);
            rt::quiet(|| {
                drop(guards);
                drop(h2);
            });
            release(h);
        })
    };
    rt::join_all();
    w.join();
    r.join();
    epilogue_p(vec![c], fil, vec![], false, "C03");
}

// ------------------------------------------------------------------------------------------
// Families with atomic helper threads (free placement of complete calls, budget k)

/// C{compare_and_swap(a => n)} with W{store b; store a (same object)} run as complete calls in
/// any gaps of the compare_and_swap (A-B-A between its internal load and its exchange, and
/// between a failed exchange and the reload).
pub fn cas_adv<S: Strat>(fill: bool) {
    let a = V::new(1);
    let a_for_c = rt::quiet(|| a.clone());
    let a_for_w = rt::quiet(|| a.clone());
    let c = Cont::<S>::new(0, a);
    let fil = filler::<S>();
    let w = {
        let (c, fil) = (c.clone(), fil.clone());
        rt::spawn(move || {
            rt::atomic_thread();
            let h = prologue(&fil, false);
            rt::quiet(|| rt::barrier(2));
            // swap (not store): what each write replaced is part of the observable history
            let x = swap(&c, V::new(31));
            let lx = x.peek_label();
            use_value(&x, lx, "swap result");
            rt::call_boundary();
            let y = swap(&c, a_for_w);
            let ly = y.peek_label();
            use_value(&y, ly, "swap result");
            rt::call_boundary();
            release(h);
            vec![x, y]
        })
    };
    let t = {
        let (c, fil) = (c.clone(), fil.clone());
        rt::spawn(move || {
            let h = prologue(&fil, fill);
            rt::quiet(|| rt::barrier(2));
            let g = cas(&c, &a_for_c, V::new(21));
            let l = g.peek_label();
            use_value(&g, l, "compare_and_swap result");
            let old = guard_into_inner(g);
            release(h);
            vec![old, a_for_c]
        })
    };
    rt::join_all();
    let mut kept = w.join().unwrap_or_default();
    kept.extend(t.join().unwrap_or_default());
    epilogue_p(vec![c], fil, kept, true, "C05,C04");
}

/// T{rcu(+1)} with W{store 100; store 200} as complete calls in any gaps of the rcu.
pub fn rcu_adv<S: Strat>(fill: bool) {
    let c = Cont::<S>::new(0, V::new(1));
    let fil = filler::<S>();
    let w = {
        let (c, fil) = (c.clone(), fil.clone());
        rt::spawn(move || {
            rt::atomic_thread();
            let h = prologue(&fil, false);
            rt::quiet(|| rt::barrier(2));
            store(&c, V::new(rcu_label(100, 2, 0)));
            rt::call_boundary();
            store(&c, V::new(rcu_label(200, 2, 1)));
            rt::call_boundary();
            release(h);
        })
    };
    let t = {
        let (c, fil) = (c.clone(), fil.clone());
        rt::spawn(move || {
            let h = prologue(&fil, fill);
            rt::quiet(|| rt::barrier(2));
            let old = rcu_inc(&c, 1);
            let l = old.peek_label();
            use_value(&old, l, "rcu result");
            release(h);
            vec![old]
        })
    };
    rt::join_all();
    w.join();
    let kept = t.join().unwrap_or_default();
    let fin = rt::quiet(|| c.sw.load_full());
    let fv = rcu_value(fin.peek_label());
    // the increment lands before, between or after the two stores
    if ![200u64, 201].contains(&fv) && !rt::draining() {
        rt::violation(
            "C06",
            "lost-update",
            format!("after rcu(+1) and stores of 100 and 200 completed the counter is {}: history {:?}", fv, world::fmt_history(Some(0))),
        );
    }
    world::observe(fv);
    rt::quiet(|| drop(fin));
    epilogue_p(vec![c], fil, kept, true, "C06");
}

/// R{load; load} || W{store} both interleaved step by step, plus W2{store} as one complete call
/// placed anywhere: the helping hand-over racing with a second writer.
pub fn help_adv<S: Strat>(fill: bool, r_first: bool) {
    let c = Cont::<S>::new(0, V::new(1));
    let fil = filler::<S>();
    // Writers walk the node list newest first, so the order in which the threads get their
    // nodes decides whom W2 helps first: the reader (`r_first` = false, its node is the newest)
    // or the other writer's nested load (`r_first` = true, the reader's node is the oldest).
    let mk_r = || {
        let (c, fil) = (c.clone(), fil.clone());
        rt::spawn(move || {
            let h = prologue(&fil, fill);
            rt::quiet(|| rt::barrier(3));
            for _ in 0..2 {
                let g = load(&c);
                let l = g.peek_label();
                use_value(&g, l, "guard");
                drop_guard(g);
            }
            release(h);
        })
    };
    let r_early = if r_first { Some(mk_r()) } else { None };
    let w2 = {
        let (c, fil) = (c.clone(), fil.clone());
        rt::spawn(move || {
            rt::atomic_thread();
            let h = prologue(&fil, false);
            rt::quiet(|| rt::barrier(3));
            store(&c, V::new(21));
            rt::call_boundary();
            release(h);
        })
    };
    let w = {
        let (c, fil) = (c.clone(), fil.clone());
        rt::spawn(move || {
            let h = prologue(&fil, false);
            rt::quiet(|| rt::barrier(3));
            store(&c, V::new(11));
            release(h);
        })
    };
    let r = match r_early {
        Some(r) => r,
        None => mk_r(),
    };
    rt::join_all();
    w2.join();
    w.join();
    r.join();
    epilogue_p(vec![c], fil, vec![], false, "C03");
}

/// One thread loads from A and then from B (back to back on its path) while a writer stores to
/// A: a help meant for the load of A must never be delivered to the load of B.
pub fn iso_ab<S: Strat>(fill: bool)
where
    S: arc_swap::strategy::Strategy<V2> + arc_swap::strategy::CaS<V2>,
{
    let a = Cont::<S>::new(0, V::new(1));
    let b: Arc<arc_swap::ArcSwapAny<V2, S>> = Arc::new(arc_swap::ArcSwapAny::with_strategy(V2::new(2), S::default()));
    let fil = filler::<S>();
    let w = {
        let (a, fil) = (a.clone(), fil.clone());
        rt::spawn(move || {
            let h = prologue(&fil, false);
            rt::quiet(|| rt::barrier(2));
            store(&a, V::new(11));
            store(&a, V::new(12));
            release(h);
        })
    };
    let r = {
        let (a, b, fil) = (a.clone(), b.clone(), fil.clone());
        rt::spawn(move || {
            let h = prologue(&fil, fill);
            rt::quiet(|| rt::barrier(2));
            let g = load(&a);
            let l = g.peek_label();
            use_value(&g, l, "guard from A");
            drop_guard(g);
            rt::call_begin("load(B)", "C08", LOAD_CAP);
            let gb = b.load();
            rt::call_end();
            let lb = gb.get();
            if lb != 2 && !rt::draining() {
                rt::violation("C12,C03", "provenance", format!("a load from container B returned value #{} which was never stored in B", lb));
            }
            drop(gb);
            release(h);
        })
    };
    rt::join_all();
    r.join();
    w.join();
    rt::quiet(|| match Arc::try_unwrap(b) {
        Ok(b) => drop(b),
        Err(_) => panic!("harness bug"),
    });
    epilogue_p(vec![a], fil, vec![], false, "C12");
}

// ------------------------------------------------------------------------------------------
// C18 under the engine: panics in user code while other threads interfere

/// The destructor of value #1 panics, in whichever thread and inside whichever library call it
/// happens to run (a reader's fallback load that was helped, a writer's store, a guard drop).
/// Every call is wrapped in catch_unwind; afterwards counts must be exact and slots empty.
pub fn panic_dtor<S: Strat>(fill: bool, two_writers: bool) {
    panic_dtor_g::<S>(fill, two_writers, false, false)
}

/// `own_guards`: the reader's fast slots are occupied by guards of the container under test
/// itself (debts on the value that gets replaced), not of the filler.
///
/// `cas`: the first writer does `compare_and_swap(raw pointer of #1 => #11)` instead of a store:
/// the caller owns no reference of the current value, so the guard inside compare_and_swap can
/// be its last owner (its destructor then runs, and panics, at the end of a lost round), and a
/// successful exchange is followed by the same debt walk as a store.
pub fn panic_dtor_g<S: Strat>(fill: bool, two_writers: bool, own_guards: bool, cas: bool) {
    world::set_extra_tag(",C18");
    rt::set_context_tag("C18");
    let v1 = V::new(1);
    let raw1 = <V as arc_swap::RefCnt>::as_ptr(&v1) as *const <V as arc_swap::RefCnt>::Base;
    let c = Cont::<S>::new(0, v1);
    let fil = filler::<S>();
    // which value's destructor panics is part of the enumeration: the initial value, or (with two
    // writers) the value the first writer stores, which may die as an unneeded helper replacement
    // in the middle of that writer's debt walk
    let victim: u64 = if two_writers { [1u64, 11][rt::choose(2)] } else { 1 };
    world::observe(victim);
    crate::varc::reg(|r| {
        r.on_destroy = Some(Rc::new(move |label| {
            if label == victim && !rt::draining() {
                std::panic::panic_any(rt::Injected("destructor of a value"));
            }
        }))
    });
    let n = 2 + two_writers as usize;
    let guarded = |f: &mut dyn FnMut()| {
        let r = std::panic::catch_unwind(std::panic::AssertUnwindSafe(f));
        if let Err(p) = r {
            if p.downcast_ref::<rt::Injected>().is_none() {
                let msg = rt::take_last_panic().unwrap_or_default();
                rt::violation("C13,C18", "panic", format!("a library call panicked on its own account: {}", msg));
            } else {
                world::observe(777);
            }
        }
    };
    let r = {
        let (c, fil) = (c.clone(), fil.clone());
        rt::spawn(move || {
            let h = prologue(&fil, fill && !own_guards);
            let mut own = Vec::new();
            rt::quiet(|| {
                if own_guards {
                    for _ in 0..SLOTS {
                        own.push(c.sw.load());
                    }
                }
                rt::barrier(n);
            });
            for _ in 0..2 {
                let mut g = None;
                guarded(&mut || {
                    g = Some(c.sw.load());
                });
                if let Some(g) = g {
                    let l = g.peek_label();
                    use_value(&g, l, "guard");
                    let mut g = Some(g);
                    guarded(&mut || drop(g.take()));
                }
            }
            // guards taken before the race still denote the initial value and keep it alive
            for x in &own {
                use_value(x, 1, "guard held across a panicking writer");
            }
            while let Some(x) = own.pop() {
                let mut x = Some(x);
                guarded(&mut || drop(x.take()));
            }
            release(h);
        })
    };
    let mut ws = Vec::new();
    for wi in 0..(1 + two_writers as u64) {
        let (c, fil) = (c.clone(), fil.clone());
        ws.push(rt::spawn(move || {
            if wi == 1 {
                // the second writer's store is one complete call placed anywhere (budget k)
                rt::atomic_thread();
            }
            let h = prologue(&fil, false);
            rt::quiet(|| rt::barrier(n));
            if cas && wi == 0 {
                guarded(&mut || {
                    let old = c.sw.compare_and_swap(raw1, V::new(11));
                    drop(old);
                });
            } else {
                guarded(&mut || c.sw.store(V::new(11 + 10 * wi)));
            }
            rt::call_boundary();
            release(h);
        }));
    }
    rt::join_all();
    r.join();
    for w in ws {
        w.join();
    }
    crate::varc::reg(|r| r.on_destroy = None);
    // the panic must not have cost or leaked a reference anywhere
    let fin = rt::quiet(|| c.sw.load_full());
    let fl = fin.peek_label();
    let mut owners: HashMap<u64, usize> = HashMap::new();
    owners.insert(fl, 2);
    owners.insert(90, 1);
    world::check_counts::<1>(&owners, &format!("after panics in the destructor of value #{}", victim));
    rt::quiet(|| drop(fin));
    world::world(|w| {
        w.history.clear();
        w.initial.insert(0, fl);
    });
    epilogue_p(vec![c], fil, vec![], false, "C18");
}

/// rcu whose closure panics on its k-th attempt (retries are forced by a competing writer).
pub fn panic_rcu<S: Strat>(fill: bool, panic_at: u64) {
    world::set_extra_tag(",C18");
    rt::set_context_tag("C18");
    let c = Cont::<S>::new(0, V::new(1));
    let fil = filler::<S>();
    let t = {
        let (c, fil) = (c.clone(), fil.clone());
        rt::spawn(move || {
            let h = prologue(&fil, fill);
            rt::quiet(|| rt::barrier(2));
            let attempt = std::cell::Cell::new(0u64);
            let r = std::panic::catch_unwind(std::panic::AssertUnwindSafe(|| {
                c.sw.rcu(|v: &V| {
                    let a = attempt.get() + 1;
                    attempt.set(a);
                    let l = v.get();
                    if a == panic_at {
                        std::panic::panic_any(rt::Injected("rcu closure"));
                    }
                    V::new(rcu_label(rcu_value(l) + 1, 1, a))
                })
            }));
            world::observe(attempt.get() * 10 + r.is_err() as u64);
            match r {
                Ok(old) => {
                    let l = old.peek_label();
                    use_value(&old, l, "rcu result");
                    release(h);
                    vec![old]
                }
                Err(p) => {
                    if p.downcast_ref::<rt::Injected>().is_none() {
                        let msg = rt::take_last_panic().unwrap_or_default();
                        rt::violation("C13,C18", "panic", format!("rcu panicked on its own account: {}", msg));
                    }
                    release(h);
                    vec![]
                }
            }
        })
    };
    let w = {
        let (c, fil) = (c.clone(), fil.clone());
        rt::spawn(move || {
            let h = prologue(&fil, false);
            rt::quiet(|| rt::barrier(2));
            c.sw.store(V::new(rcu_label(100, 2, 0)));
            c.sw.store(V::new(rcu_label(200, 2, 1)));
            release(h);
        })
    };
    rt::join_all();
    let kept = t.join().unwrap_or_default();
    w.join();
    let fin = rt::quiet(|| c.sw.load_full());
    let fl = fin.peek_label();
    let fv = rcu_value(fl);
    // the container holds a legitimately stored value: 200 or an increment on top of it
    if ![200u64, 201].contains(&fv) && !rt::draining() {
        rt::violation("C18", "after-panic", format!("after an rcu whose closure panicked on attempt {} the container holds {}", panic_at, fv));
    }
    rt::quiet(|| drop(fin));
    world::world(|w| {
        w.history.clear();
        w.initial.insert(0, fl);
    });
    epilogue_p(vec![c], fil, kept, false, "C18");
}

// ------------------------------------------------------------------------------------------
// Cache and Map under the engine (concurrent clauses of C16 / C17)

fn order_of(label: u64) -> u64 {
    match label {
        1 => 0,
        11 => 1,
        12 => 2,
        13 => 3,
        _ => 99,
    }
}

/// W{store #11; flag.store(Release); store #12} || C{cache.load; if flag.load(Acquire) {cache.load
/// must be #11 or newer, whatever the second store does meanwhile}; cache.load}: per-cache monotone in write order, never a foreign identity, and a
/// store whose completion happens-before the call is seen.
///
/// `aba`: W{store #11; store #12; store #13; flag.store(Release)} || C{load; load; if flag {load
/// must be #13}; load}. With reused addresses #13 lives where #11 lived: a cache that remembers an
/// address it holds no reference to takes #13 for what it has.
pub fn cache_conc<S: Strat>(fill: bool, aba: bool) {
    use arc_swap::cache::Cache;
    use rt::atomic::AtomicUsize;
    use std::sync::atomic::Ordering::{Acquire, Release};
    let c = Cont::<S>::new(0, V::new(1));
    let fil = filler::<S>();
    let flag = Arc::new(AtomicUsize::new(0));
    let w = {
        let (c, fil, flag) = (c.clone(), fil.clone(), flag.clone());
        rt::spawn(move || {
            let h = prologue(&fil, false);
            rt::quiet(|| rt::barrier(2));
            store(&c, V::new(11));
            if aba {
                store(&c, V::new(12));
                store(&c, V::new(13));
                flag.store(1, Release);
            } else {
                flag.store(1, Release);
                store(&c, V::new(12));
            }
            release(h);
        })
    };
    let r = {
        let (c, fil, flag) = (c.clone(), fil.clone(), flag.clone());
        rt::spawn(move || {
            let h = prologue(&fil, fill);
            let newest = if aba { 3 } else { 1 };
            let mut cache = rt::quiet(|| Cache::new(&c.sw));
            rt::quiet(|| rt::barrier(2));
            let mut last = 0u64;
            let mut do_load = |must_be_newest: bool| {
                let b = begin("cache.load", "C08", LOAD_CAP);
                let v = cache.load();
                let l = v.peek_label();
                finish(b, 0, world::Kind::CacheLoad, 0, 0, l);
                use_value(v, l, "value returned by Cache::load");
                let o = order_of(l);
                if rt::draining() {
                    return;
                }
                if o == 99 {
                    rt::violation("C16", "cache", format!("Cache::load returned value #{} which was never stored in the container", l));
                } else if o < last {
                    rt::violation("C16", "cache", format!("Cache::load went backwards in the order of writes: returned #{} after a newer value", l));
                } else if must_be_newest && o < newest {
                    rt::violation(
                        "C16",
                        "cache",
                        format!("Cache::load returned #{} although the completion of a later store happens-before the call (release/acquire flag)", l),
                    );
                }
                last = o;
                world::observe(l);
            };
            do_load(false);
            if aba {
                do_load(false);
            }
            if flag.load(Acquire) == 1 {
                do_load(true);
            }
            do_load(false);
            rt::quiet(|| drop(cache));
            release(h);
        })
    };
    rt::join_all();
    w.join();
    r.join();
    epilogue_p(vec![c], fil, vec![], false, "C16");
}

/// R{g = map.load(); deref; deref; drop; g2 = map.load(); deref} || W{store; store}: a projection
/// guard keeps denoting (and keeps alive) one snapshot.
pub fn map_conc<S: Strat>(fill: bool) {
    use arc_swap::access::{Access, Map};
    // whatever fails while a projection guard is in use is (also) a failure of C17
    rt::set_context_tag("C17");
    let c = Cont::<S>::new(0, V::new(1));
    let fil = filler::<S>();
    let w = {
        let (c, fil) = (c.clone(), fil.clone());
        rt::spawn(move || {
            let h = prologue(&fil, false);
            rt::quiet(|| rt::barrier(2));
            store(&c, V::new(11));
            store(&c, V::new(12));
            release(h);
        })
    };
    let r = {
        let (c, fil) = (c.clone(), fil.clone());
        rt::spawn(move || {
            let h = prologue(&fil, fill);
            rt::quiet(|| rt::barrier(2));
            let m = Map::new(&c.sw, |v: &V| v);
            rt::call_begin("Map::load", "C08", LOAD_CAP);
            let g = Access::load(&m);
            rt::call_end();
            let first = g.peek_label();
            for i in 0..2 {
                let got = g.get();
                if got != first && !rt::draining() {
                    rt::violation("C17", "snapshot", format!("a projection guard taken on value #{} reads #{} at its deref number {}", first, got, i + 1));
                }
            }
            world::observe(first);
            rt::call_begin("drop(MapGuard)", "C09", DROP_CAP);
            drop(g);
            rt::call_end();
            let g2 = Access::load(&m);
            let second = g2.get();
            if order_of(second) < order_of(first) && !rt::draining() {
                rt::violation("C17", "snapshot", format!("a later projection load returned #{} after #{}", second, first));
            }
            world::observe(second);
            drop(g2);
            release(h);
        })
    };
    rt::join_all();
    w.join();
    r.join();
    epilogue_p(vec![c], fil, vec![], false, "C17");
}

/// T{rcu(+1)} with W{swap(b); swap(a back, the same object)} as complete calls in any gaps: the
/// pointer the rcu based its attempt on comes back (A-B-A), e.g. a shared "empty" value.
pub fn rcu_aba<S: Strat>(fill: bool) {
    let a = V::new(1);
    let a_for_w = rt::quiet(|| a.clone());
    let c = Cont::<S>::new(0, a);
    let fil = filler::<S>();
    let w = {
        let (c, fil) = (c.clone(), fil.clone());
        rt::spawn(move || {
            rt::atomic_thread();
            let h = prologue(&fil, false);
            rt::quiet(|| rt::barrier(2));
            let x = swap(&c, V::new(rcu_label(100, 2, 0)));
            let lx = x.peek_label();
            use_value(&x, lx, "swap result");
            rt::call_boundary();
            let y = swap(&c, a_for_w);
            let ly = y.peek_label();
            use_value(&y, ly, "swap result");
            rt::call_boundary();
            release(h);
            vec![x, y]
        })
    };
    let t = {
        let (c, fil) = (c.clone(), fil.clone());
        rt::spawn(move || {
            let h = prologue(&fil, fill);
            rt::quiet(|| rt::barrier(2));
            let old = rcu_inc(&c, 1);
            let l = old.peek_label();
            use_value(&old, l, "rcu result");
            release(h);
            vec![old]
        })
    };
    rt::join_all();
    let mut kept = w.join().unwrap_or_default();
    kept.extend(t.join().unwrap_or_default());
    epilogue_p(vec![c], fil, kept, true, "C06,C04");
}

/// wrap_nested plus a third thread that starts during the race, claims whatever node is free
/// (possibly the one the writer just discarded in its nested load) and writes, i.e. may help
/// the same reader with that node's hand-over envelope.
pub fn wrap_nested3<S: Strat>(fill_reader: bool) {
    // after a wrap-around every other guarantee must keep holding: any failed oracle is a C13 failure too
    rt::set_context_tag("C13");
    let c = Cont::<S>::new(0, V::new(1));
    let fil = filler::<S>();
    let r = {
        let (c, fil) = (c.clone(), fil.clone());
        rt::spawn(move || {
            let h = prologue(&fil, fill_reader);
            rt::quiet(|| rt::barrier(3));
            for _ in 0..2 {
                let g = load(&c);
                let l = g.peek_label();
                use_value(&g, l, "guard of a reader that may be helped");
                drop_guard(g);
            }
            release(h);
        })
    };
    let w = {
        let (c, fil) = (c.clone(), fil.clone());
        rt::spawn(move || {
            let h = prologue(&fil, true);
            rt::quiet(|| {
                arc_swap::verif::set_generation(0usize.wrapping_sub(4));
                rt::barrier(3);
            });
            store(&c, V::new(11));
            release(h);
        })
    };
    let t3 = {
        let c = c.clone();
        rt::spawn(move || {
            rt::quiet(|| rt::barrier(3));
            // first use of the crate on this thread: Node::get runs inside the race
            store(&c, V::new(21));
            let g = load(&c);
            let l = g.peek_label();
            use_value(&g, l, "guard of the late thread");
            drop_guard(g);
        })
    };
    rt::join_all();
    r.join();
    w.join();
    t3.join();
    epilogue_p(vec![c], fil, vec![], false, "C03");
}

/// The reader's own load wraps the generation counter while a thread that has never used the
/// crate starts: it may claim the node the reader just sent to cooldown and load through it at
/// once (the reader's helping slot must be free by then).
pub fn wrap_claim<S: Strat>(fill: bool) {
    rt::set_context_tag("C13");
    let c = Cont::<S>::new(0, V::new(1));
    let fil = filler::<S>();
    let r = {
        let (c, fil) = (c.clone(), fil.clone());
        rt::spawn(move || {
            let h = prologue(&fil, fill);
            rt::quiet(|| {
                arc_swap::verif::set_generation(0usize.wrapping_sub(4));
                rt::barrier(2);
            });
            let res = std::panic::catch_unwind(std::panic::AssertUnwindSafe(|| {
                for _ in 0..2 {
                    let g = load(&c);
                    let l = g.peek_label();
                    use_value(&g, l, "guard around the generation wrap");
                    drop_guard(g);
                }
            }));
            if res.is_err() {
                let msg = rt::take_last_panic().unwrap_or_default();
                rt::violation("C13", "panic", format!("a load panicked around the generation wrap: {}", msg));
            }
            release(h);
        })
    };
    let s = {
        let c = c.clone();
        rt::spawn(move || {
            rt::quiet(|| rt::barrier(2));
            let res = std::panic::catch_unwind(std::panic::AssertUnwindSafe(|| {
                // first use of the crate on this thread: Node::get, then loads on every path
                let v = load_full(&c);
                let l = v.peek_label();
                use_value(&v, l, "load_full of a thread that may have claimed a node in cooldown");
                let mut gs = Vec::new();
                for _ in 0..SLOTS + 1 {
                    gs.push(c.sw.load());
                }
                for g in &gs {
                    use_value(g, 1, "guard");
                }
                rt::quiet(|| drop(gs));
                drop_value(v);
            }));
            if res.is_err() {
                let msg = rt::take_last_panic().unwrap_or_default();
                rt::violation("C13", "panic", format!("a load on a freshly started thread panicked: {}", msg));
            }
        })
    };
    rt::join_all();
    r.join();
    s.join();
    epilogue_p(vec![c], fil, vec![], false, "C03");
}

/// Thread churn against the helping protocol: T{fallback load, exit} || W{store #11} ||
/// S{starts inside the race, first use of the crate: store #21, load, load}. If S can claim T's
/// node while W is still inside it, the help W prepared for T's transaction (value #11, same
/// generation number as S's second transaction) lands in S's load after S's own store of #21.
pub fn churn_help<S: Strat>(fill: bool, two: bool, with_cas: bool) {
    let c = Cont::<S>::new(0, V::new(1));
    // `two`: the late thread works on a container of its own; a stale help prepared for the
    // exited thread's load of `c` then delivers a value of `c` to a load of `b` (C12).
    let b = if two { Cont::<S>::new(1, V::new(2)) } else { c.clone() };
    let fil = filler::<S>();
    let w = {
        let (c, fil) = (c.clone(), fil.clone());
        rt::spawn(move || {
            let h = prologue(&fil, false);
            rt::quiet(|| rt::barrier(3));
            store(&c, V::new(11));
            release(h);
        })
    };
    let s = {
        let (c, fil) = (b.clone(), fil.clone());
        rt::spawn(move || {
            rt::quiet(|| rt::barrier(3));
            // no prologue: Node::get happens here, inside the race
            store(&c, V::new(21));
            let mut held = Vec::new();
            if fill {
                rt::quiet(|| {
                    for _ in 0..SLOTS {
                        held.push(fil.sw.load());
                    }
                });
            }
            if with_cas {
                // compare_and_swap against the value this thread has just stored itself: it
                // must succeed unless W's store came in between (then it returns W's value)
                let cur = load_full(&c);
                let g = cas(&c, &cur, V::new(22));
                let l = g.peek_label();
                use_value(&g, l, "compare_and_swap result of the late thread");
                drop_guard(g);
                drop_value(cur);
            } else {
                // two loads: the second one reuses the generation number the exited thread used last
                for _ in 0..2 {
                    let g = load(&c);
                    let l = g.peek_label();
                    use_value(&g, l, "guard of the late thread");
                    drop_guard(g);
                }
            }
            rt::quiet(|| drop(held));
        })
    };
    let t = {
        let (c, fil) = (c.clone(), fil.clone());
        rt::spawn(move || {
            let h = prologue(&fil, fill);
            rt::quiet(|| rt::barrier(3));
            let g = load(&c);
            let l = g.peek_label();
            use_value(&g, l, "guard of the exiting thread");
            drop_guard(g);
            release(h);
            // thread exit (cooldown) follows at once
        })
    };
    rt::join_all();
    w.join();
    s.join();
    t.join();
    if two {
        epilogue_p(vec![c, b], fil, vec![], false, "C11,C12");
    } else {
        drop(b);
        epilogue_p(vec![c], fil, vec![], false, if with_cas { "C11,C05" } else { "C11,C03" });
    }
}

/// A projection guard outlives the thread that created it and is used on another thread while a
/// writer replaces the value (C17 with the C10 life cycle).
pub fn map_life<S: Strat>() {
    use arc_swap::access::{Access, Map};
    rt::set_context_tag("C17");
    let c = Cont::<S>::new(0, V::new(1));
    let fil = filler::<S>();
    type MG<S> = <Map<&'static arc_swap::ArcSwapAny<V, S>, V, fn(&V) -> &V> as Access<V>>::Guard;
    let slot: Rc<RefCell<Option<MG<S>>>> = Rc::new(RefCell::new(None));
    // Writer and user start first and own their debt nodes before the creator of the guard
    // exits, so nobody adopts the creator's node (which still carries the guard's debt).
    let w = {
        let (c, fil) = (c.clone(), fil.clone());
        rt::spawn(move || {
            let h = prologue(&fil, false);
            rt::quiet(|| rt::barrier(3));
            store(&c, V::new(11));
            release(h);
        })
    };
    let user = {
        let (fil, slot) = (fil.clone(), slot.clone());
        rt::spawn(move || {
            let h = prologue(&fil, false);
            rt::quiet(|| rt::barrier(3));
            let g = slot.borrow_mut().take().expect("harness bug: no guard");
            for i in 0..2 {
                let got = g.peek_label();
                let read = g.get();
                if (got != 1 || read != 1) && !rt::draining() {
                    rt::violation("C17", "snapshot", format!("a projection guard taken on value #1 does not read #1 at deref {} on another thread", i + 1));
                }
            }
            rt::call_begin("drop(MapGuard)", "C09", DROP_CAP);
            drop(g);
            rt::call_end();
            release(h);
        })
    };
    let t1 = {
        let (c, fil, slot) = (c.clone(), fil.clone(), slot.clone());
        rt::spawn(move || {
            let h = prologue(&fil, false);
            let c2: &'static Cont<S> = unsafe { &*(Arc::as_ptr(&c)) };
            let f: fn(&V) -> &V = |v| v;
            let m = Map::new(&c2.sw, f);
            let g = rt::quiet(|| Access::load(&m));
            *slot.borrow_mut() = Some(g);
            release(h);
        })
    };
    rt::quiet(|| {
        t1.join();
        rt::barrier(3);
    });
    rt::join_all();
    w.join();
    user.join();
    epilogue_p(vec![c], fil, vec![], false, "C17");
}

// ------------------------------------------------------------------------------------------
// C20 under the engine: serializing a container while it is written

/// T{serialize the container (twice)} || W{store, store}: the serializer must work on a value the
/// container protects for it; the output must be the serialization of a value that was stored.
pub fn serde_conc<S: Strat>(fill: bool) {
    rt::set_context_tag("C20");
    let c = Cont::<S>::new(0, V::new(1));
    let fil = filler::<S>();
    let w = {
        let (c, fil) = (c.clone(), fil.clone());
        rt::spawn(move || {
            let h = prologue(&fil, false);
            rt::quiet(|| rt::barrier(2));
            store(&c, V::new(11));
            store(&c, V::new(12));
            release(h);
        })
    };
    let t = {
        let (c, fil) = (c.clone(), fil.clone());
        rt::spawn(move || {
            let h = prologue(&fil, fill);
            rt::quiet(|| rt::barrier(2));
            let mut last = 0;
            for _ in 0..2 {
                rt::call_begin("serialize", "C08", LOAD_CAP + 4);
                let out = serde_json::to_string(&c.sw);
                rt::call_end();
                match out {
                    Ok(s) => {
                        let l: u64 = s.parse().unwrap_or(u64::MAX);
                        let o = order_of(l);
                        if (o == 99 || o < last) && !rt::draining() {
                            rt::violation("C20", "serde", format!("the container serialized as {:?}, which is not a value it held at that time", s));
                        }
                        last = o;
                        world::observe(l);
                    }
                    Err(e) => rt::violation("C20", "serde", format!("serialization failed: {}", e)),
                }
            }
            release(h);
        })
    };
    rt::join_all();
    w.join();
    t.join();
    epilogue_p(vec![c], fil, vec![], false, "C20");
}

// ------------------------------------------------------------------------------------------
// C14 under the engine: sequential programs with spurious compare-exchange failures

/// One model thread runs a sequential program of the C14 alphabet under a strategy and compares
/// with the reference model after every step; the engine enumerates spurious failures of every
/// weak compare-exchange on the way (they exist on LL/SC hardware, never on x86).
pub fn seq_spurious(strategy: u8) {
    use crate::seq::{Form, Op};
    rt::set_context_tag("C14,C02");
    let programs: Vec<Vec<Op>> = vec![
        vec![Op::New(0, 1), Op::Load(0), Op::Store(0, 2), Op::DropGuard(1), Op::LoadFull(0), Op::DropHandle(2), Op::DropCont(0)],
        vec![Op::New(0, 1), Op::Load(0), Op::Load(0), Op::Load(0), Op::Swap(0, 2), Op::GuardInto(1), Op::DropGuard(1), Op::DropGuard(1), Op::IntoInner(0)],
        vec![Op::New(0, 1), Op::Cas(0, Form::Ref, 1, 2), Op::Cas(0, Form::Ref, 1, 3), Op::Rcu(0, 0), Op::DropGuard(1), Op::DropGuard(2), Op::DropCont(0)],
        vec![Op::New(0, 1), Op::New(1, 1), Op::Load(0), Op::Store(1, 2), Op::Rcu(0, 1), Op::DropGuard(1), Op::LoadFull(1), Op::DropCont(1), Op::DropCont(0)],
    ];
    let p = &programs[rt::choose(programs.len())];
    let r = match strategy {
        0 => crate::seq::replay_path::<arc_swap::DefaultStrategy>(p, true),
        _ => {
            #[allow(deprecated)]
            let r = crate::seq::replay_path::<arc_swap::strategy::test_strategies::FillFastSlots>(p, true);
            r
        }
    };
    if let Err(e) = r {
        if !rt::draining() {
            rt::violation("C14,C02", "model", format!("sequential program {:?}: {}", p, e));
        }
    }
    world::observe(p.len() as u64);
}

// ------------------------------------------------------------------------------------------
// Containers of Option<..>: the null pointer as a value (the most common A-B-A)

type OptSw<S> = arc_swap::ArcSwapAny<Option<V>, S>;

fn opt_label(v: &Option<V>) -> u64 {
    v.as_ref().map(|x| x.peek_label()).unwrap_or(0)
}

fn opt_rec(start: crate::api::Begin, kind: world::Kind, cur: u64, new: u64, ret: u64) {
    finish(start, 0, kind, cur, new, ret);
}

/// R{load, deref, drop; load_full} || W{store(None); store(Some b)} || C{compare_and_swap(None => Some c) or
/// rcu(None => Some c)} on an `ArcSwapAny<Option<VArc>>`: None is stored, compared and restored.
pub fn opt_h<S>(fill: bool, use_rcu: bool)
where
    S: Strat + arc_swap::strategy::Strategy<Option<V>> + arc_swap::strategy::CaS<Option<V>>,
{
    let c: Arc<OptSw<S>> = Arc::new(arc_swap::ArcSwapAny::with_strategy(Some(V::new(1)), S::default()));
    world::world(|w| {
        w.initial.insert(0, 1);
    });
    let fil = filler::<S>();
    let r = {
        let (c, fil) = (c.clone(), fil.clone());
        rt::spawn(move || {
            let h = prologue(&fil, fill);
            rt::quiet(|| rt::barrier(3));
            let b = begin("load", "C08", LOAD_CAP);
            let g = c.load();
            let l = opt_label(&g);
            opt_rec(b, world::Kind::Load, 0, 0, l);
            if let Some(v) = g.as_ref() {
                use_value(v, l, "guard of an optional container");
            }
            rt::call_begin("drop(guard)", "C09", DROP_CAP);
            drop(g);
            rt::call_end();
            let b = begin("load_full", "C08", LOAD_CAP);
            let f = c.load_full();
            let lf = opt_label(&f);
            opt_rec(b, world::Kind::LoadFull, 0, 0, lf);
            if let Some(v) = f.as_ref() {
                use_value(v, lf, "load_full result of an optional container");
            }
            drop(f);
            release(h);
        })
    };
    let w = {
        let (c, fil) = (c.clone(), fil.clone());
        rt::spawn(move || {
            rt::atomic_thread();
            let h = prologue(&fil, false);
            rt::quiet(|| rt::barrier(3));
            let b = begin("swap", "C09", WRITE_CAP);
            let x = c.swap(None);
            let lx = opt_label(&x);
            opt_rec(b, world::Kind::Swap, 0, 0, lx);
            // The value the readers race for dies as early as it can (a handle kept until the end
            // would hide a reader that got it without protection).
            if let Some(v) = x.as_ref() {
                use_value(v, lx, "swap result of an optional container");
            }
            drop(x);
            rt::call_boundary();
            let b = begin("swap", "C09", WRITE_CAP);
            let y = c.swap(Some(V::new(11)));
            opt_rec(b, world::Kind::Swap, 0, 11, opt_label(&y));
            rt::call_boundary();
            let b = begin("swap", "C09", WRITE_CAP);
            let z = c.swap(None);
            opt_rec(b, world::Kind::Swap, 0, 0, opt_label(&z));
            rt::call_boundary();
            release(h);
            vec![y, z]
        })
    };
    let t = {
        let (c, fil) = (c.clone(), fil.clone());
        rt::spawn(move || {
            let h = prologue(&fil, fill);
            rt::quiet(|| rt::barrier(3));
            let mut out = Vec::new();
            if use_rcu {
                let b = begin("rcu", "C09", WRITE_CAP);
                let attempt = std::cell::Cell::new(0u64);
                let newl = std::cell::Cell::new(0u64);
                let old = c.rcu(|cur: &Option<V>| {
                    let a = attempt.get();
                    attempt.set(a + 1);
                    let l = 100 * (a + 1) + opt_label(cur) % 100;
                    newl.set(l);
                    Some(V::new(l))
                });
                let lo = opt_label(&old);
                opt_rec(b, world::Kind::Rcu, lo, newl.get(), lo);
                out.push(old);
            } else {
                let none: Option<V> = None;
                let b = begin("compare_and_swap", "C09", WRITE_CAP);
                let g = c.compare_and_swap(&none, Some(V::new(21)));
                let lg = opt_label(&g);
                opt_rec(b, world::Kind::Cas, 0, 21, lg);
                out.push(arc_swap::Guard::into_inner(g));
            }
            release(h);
            out
        })
    };
    rt::join_all();
    r.join();
    let mut kept = w.join().unwrap_or_default();
    kept.extend(t.join().unwrap_or_default());
    // epilogue for the optional container
    let g = rt::quiet(|| c.load());
    let fl = opt_label(&g);
    let b = begin("load", "C08", LOAD_CAP);
    opt_rec(b, world::Kind::Load, 0, 0, fl);
    world::check_linearizable("C05,C06,C03");
    let mut owners: HashMap<u64, usize> = HashMap::new();
    if fl != 0 {
        *owners.entry(fl).or_insert(0) += 2;
    }
    for v in kept.iter().flatten() {
        *owners.entry(v.peek_label()).or_insert(0) += 1;
    }
    owners.insert(90, 1);
    world::check_counts::<1>(&owners, "after all threads finished (optional container)");
    rt::quiet(|| drop(g));
    for v in kept.iter().flatten() {
        let l = v.peek_label();
        use_value(v, l, "kept handle of an optional container");
    }
    rt::quiet(|| {
        drop(kept);
        match Arc::try_unwrap(c) {
            Ok(c) => drop(c),
            Err(_) => panic!("harness bug"),
        }
        drop_container(fil);
    });
}
