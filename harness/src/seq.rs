//! Explicit-state search over the public API (C14, sequential parts of C02/C05): a tiny
//! executable reference model (a plain variable per container plus owner multisets) defines the
//! abstract state; breadth-first search enumerates every abstract state reachable within small
//! resource caps and every transition out of it; each transition's path is replayed on fresh
//! real objects under each strategy and compared step by step (identities and exact counts).

use std::collections::{HashMap, VecDeque};
use std::sync::{Arc, Mutex};

use arc_swap_verif_rt::sync::RwLock;

use arc_swap::strategy::{CaS, Strategy};
use arc_swap::{ArcSwapAny, DefaultStrategy, Guard};
use serde::{Deserialize, Serialize};
use serde_json::json;

pub type T = Option<Arc<u32>>;
pub type Val = u8; // 0 = None, 1..=POOL = pool values

pub const POOL: usize = 3;
pub const CONTS: usize = 2;

#[derive(Clone, Copy, Debug, PartialEq, Eq, Hash, PartialOrd, Ord, Serialize, Deserialize)]
pub enum Form {
    Ref,
    GuardRef,
    GuardVal,
    ConstPtr,
    MutPtr,
}

#[derive(Clone, Copy, Debug, PartialEq, Eq, Hash, PartialOrd, Ord, Serialize, Deserialize)]
pub enum Op {
    New(u8, Val),
    Load(u8),
    LoadFull(u8),
    GuardInto(Val),
    GuardFrom(Val),
    DropGuard(Val),
    /// index-based release (only used by hand-written programs; the value is for the model)
    DropGuardAt(u8, Val),
    GuardIntoAt(u8, Val),
    DropHandle(Val),
    Store(u8, Val),
    Swap(u8, Val),
    Cas(u8, Form, Val, Val),
    /// rcu with f(v) = next(v); variant 1: the closure also loads from the same container;
    /// variant 2: f is the identity (stores the same pointer back)
    Rcu(u8, u8),
    IntoInner(u8),
    DropCont(u8),
}

pub fn next_val(v: Val) -> Val {
    (v % POOL as u8) + 1
}

#[derive(Clone, Debug, PartialEq, Eq, Hash, PartialOrd, Ord)]
pub struct MState {
    pub conts: [Option<Val>; CONTS],
    pub guards: Vec<Val>,
    pub handles: Vec<Val>,
}

impl MState {
    pub fn initial() -> MState {
        MState { conts: [None; CONTS], guards: vec![], handles: vec![] }
    }
    fn canon(mut self) -> MState {
        self.guards.sort();
        self.handles.sort();
        self
    }
    /// Reference semantics: returns the new state and the identity the call returns (if any).
    pub fn apply(&self, op: Op) -> (MState, Option<Val>) {
        let mut s = self.clone();
        let ret = match op {
            Op::New(c, v) => {
                s.conts[c as usize] = Some(v);
                None
            }
            Op::Load(c) => {
                let v = s.conts[c as usize].unwrap();
                s.guards.push(v);
                Some(v)
            }
            Op::LoadFull(c) => {
                let v = s.conts[c as usize].unwrap();
                s.handles.push(v);
                Some(v)
            }
            Op::GuardInto(v) => {
                let i = s.guards.iter().position(|g| *g == v).unwrap();
                s.guards.remove(i);
                s.handles.push(v);
                Some(v)
            }
            Op::GuardFrom(v) => {
                let i = s.handles.iter().position(|g| *g == v).unwrap();
                s.handles.remove(i);
                s.guards.push(v);
                Some(v)
            }
            Op::DropGuard(v) | Op::DropGuardAt(_, v) => {
                let i = s.guards.iter().position(|g| *g == v).unwrap();
                s.guards.remove(i);
                None
            }
            Op::GuardIntoAt(_, v) => {
                let i = s.guards.iter().position(|g| *g == v).unwrap();
                s.guards.remove(i);
                s.handles.push(v);
                Some(v)
            }
            Op::DropHandle(v) => {
                let i = s.handles.iter().position(|g| *g == v).unwrap();
                s.handles.remove(i);
                None
            }
            Op::Store(c, v) => {
                s.conts[c as usize] = Some(v);
                None
            }
            Op::Swap(c, v) => {
                let old = s.conts[c as usize].unwrap();
                s.conts[c as usize] = Some(v);
                s.handles.push(old);
                Some(old)
            }
            Op::Cas(c, _, cur, new) => {
                let old = s.conts[c as usize].unwrap();
                if old == cur {
                    s.conts[c as usize] = Some(new);
                }
                s.guards.push(old);
                Some(old)
            }
            Op::Rcu(c, variant) => {
                let old = s.conts[c as usize].unwrap();
                let new = if variant == 2 { old } else { next_val(old) };
                s.conts[c as usize] = Some(new);
                s.handles.push(old);
                Some(old)
            }
            Op::IntoInner(c) => {
                let v = s.conts[c as usize].take().unwrap();
                s.handles.push(v);
                Some(v)
            }
            Op::DropCont(c) => {
                s.conts[c as usize] = None;
                None
            }
        };
        (s.canon(), ret)
    }

    pub fn enabled(&self, max_guards: usize, max_handles: usize) -> Vec<Op> {
        let mut ops = Vec::new();
        let room_g = self.guards.len() < max_guards;
        let room_h = self.handles.len() < max_handles;
        let mut gv = self.guards.clone();
        gv.dedup();
        let mut hv = self.handles.clone();
        hv.dedup();
        for c in 0..CONTS as u8 {
            match self.conts[c as usize] {
                None => {
                    for v in 0..=POOL as u8 {
                        ops.push(Op::New(c, v));
                    }
                }
                Some(_) => {
                    if room_g {
                        ops.push(Op::Load(c));
                    }
                    if room_h {
                        ops.push(Op::LoadFull(c));
                    }
                    for v in 0..=POOL as u8 {
                        ops.push(Op::Store(c, v));
                        if room_h {
                            ops.push(Op::Swap(c, v));
                        }
                    }
                    if room_g {
                        for cur in 0..=POOL as u8 {
                            for new in 0..=POOL as u8 {
                                for f in [Form::Ref, Form::GuardRef, Form::GuardVal, Form::ConstPtr, Form::MutPtr] {
                                    ops.push(Op::Cas(c, f, cur, new));
                                }
                            }
                        }
                    }
                    if room_h {
                        for variant in 0..3u8 {
                            ops.push(Op::Rcu(c, variant));
                        }
                        ops.push(Op::IntoInner(c));
                    }
                    ops.push(Op::DropCont(c));
                }
            }
        }
        for &v in &gv {
            if room_h {
                ops.push(Op::GuardInto(v));
            }
            ops.push(Op::DropGuard(v));
        }
        for &v in &hv {
            if room_g {
                ops.push(Op::GuardFrom(v));
            }
            ops.push(Op::DropHandle(v));
        }
        ops
    }
}

// ------------------------------------------------------------------------------------------
// The real thing

pub trait SeqStrat: Strategy<T> + CaS<T> + Default + 'static {
    const NAME: &'static str;
    const DEBTS: bool;
    /// compare_and_swap with `current` given as a guard by value / by reference is only
    /// implemented for guards of the default strategy; other strategies use `&T`.
    fn cas_guard(c: &ArcSwapAny<T, Self>, by_value: bool, cur: T, new: T) -> Guard<T, Self>;
}

impl SeqStrat for DefaultStrategy {
    const NAME: &'static str = "DefaultStrategy";
    const DEBTS: bool = true;
    fn cas_guard(c: &ArcSwapAny<T, Self>, by_value: bool, cur: T, new: T) -> Guard<T, Self> {
        let g: Guard<T> = Guard::from_inner(cur);
        if by_value {
            c.compare_and_swap(g, new)
        } else {
            c.compare_and_swap(&g, new)
        }
    }
}

#[allow(deprecated)]
impl SeqStrat for arc_swap::strategy::test_strategies::FillFastSlots {
    const NAME: &'static str = "FillFastSlots";
    const DEBTS: bool = true;
    fn cas_guard(c: &ArcSwapAny<T, Self>, _by_value: bool, cur: T, new: T) -> Guard<T, Self> {
        c.compare_and_swap(&cur, new)
    }
}

impl SeqStrat for RwLock<()> {
    const NAME: &'static str = "RwLock";
    const DEBTS: bool = false;
    fn cas_guard(c: &ArcSwapAny<T, Self>, _by_value: bool, cur: T, new: T) -> Guard<T, Self> {
        c.compare_and_swap(&cur, new)
    }
}

pub struct Real<S: SeqStrat> {
    pool: Vec<Arc<u32>>,
    conts: [Option<ArcSwapAny<T, S>>; CONTS],
    guards: Vec<Guard<T, S>>,
    handles: Vec<T>,
}

fn slots_holding(addr: usize) -> usize {
    arc_swap::verif::slots_holding(addr)
}

impl<S: SeqStrat> Real<S> {
    pub fn new() -> Self {
        Real {
            pool: (1..=POOL as u32).map(Arc::new).collect(),
            conts: [None, None],
            guards: Vec::new(),
            handles: Vec::new(),
        }
    }
    fn mk(&self, v: Val) -> T {
        if v == 0 {
            None
        } else {
            Some(self.pool[v as usize - 1].clone())
        }
    }
    fn val_of(&self, t: &T) -> Val {
        match t {
            None => 0,
            Some(a) => self.pool.iter().position(|p| Arc::ptr_eq(p, a)).map(|i| i as Val + 1).unwrap_or(255),
        }
    }
    fn gpos(&self, v: Val) -> usize {
        self.guards.iter().position(|g| self.val_of(g) == v).expect("model/real guard mismatch")
    }
    fn hpos(&self, v: Val) -> usize {
        self.handles.iter().position(|h| self.val_of(h) == v).expect("model/real handle mismatch")
    }
    pub fn exec(&mut self, op: Op) -> Option<Val> {
        match op {
            Op::New(c, v) => {
                let t = self.mk(v);
                self.conts[c as usize] = Some(if v == 0 && c == 1 { ArcSwapAny::<T, S>::empty() } else { ArcSwapAny::new(t) });
                None
            }
            Op::Load(c) => {
                let g = self.conts[c as usize].as_ref().unwrap().load();
                let v = self.val_of(&g);
                self.guards.push(g);
                Some(v)
            }
            Op::LoadFull(c) => {
                let h = self.conts[c as usize].as_ref().unwrap().load_full();
                let v = self.val_of(&h);
                self.handles.push(h);
                Some(v)
            }
            Op::GuardInto(v) => {
                let i = self.gpos(v);
                let g = self.guards.remove(i);
                let h = Guard::into_inner(g);
                let r = self.val_of(&h);
                self.handles.push(h);
                Some(r)
            }
            Op::GuardFrom(v) => {
                let i = self.hpos(v);
                let h = self.handles.remove(i);
                let g: Guard<T, S> = Guard::from_inner(h);
                let r = self.val_of(&g);
                self.guards.push(g);
                Some(r)
            }
            Op::DropGuard(v) => {
                let i = self.gpos(v);
                drop(self.guards.remove(i));
                None
            }
            Op::DropGuardAt(i, _) => {
                let i = (i as usize).min(self.guards.len() - 1);
                drop(self.guards.remove(i));
                None
            }
            Op::GuardIntoAt(i, _) => {
                let i = (i as usize).min(self.guards.len() - 1);
                let g = self.guards.remove(i);
                let h = Guard::into_inner(g);
                let r = self.val_of(&h);
                self.handles.push(h);
                Some(r)
            }
            Op::DropHandle(v) => {
                let i = self.hpos(v);
                drop(self.handles.remove(i));
                None
            }
            Op::Store(c, v) => {
                let t = self.mk(v);
                self.conts[c as usize].as_ref().unwrap().store(t);
                None
            }
            Op::Swap(c, v) => {
                let t = self.mk(v);
                let old = self.conts[c as usize].as_ref().unwrap().swap(t);
                let r = self.val_of(&old);
                self.handles.push(old);
                Some(r)
            }
            Op::Cas(c, form, cur, new) => {
                let curt = self.mk(cur);
                let newt = self.mk(new);
                let cont = self.conts[c as usize].as_ref().unwrap();
                let g = match form {
                    Form::Ref => cont.compare_and_swap(&curt, newt),
                    Form::GuardRef => S::cas_guard(cont, false, curt, newt),
                    Form::GuardVal => S::cas_guard(cont, true, curt, newt),
                    Form::ConstPtr => {
                        let p: *const u32 = curt.as_ref().map(|a| Arc::as_ptr(a)).unwrap_or(std::ptr::null());
                        cont.compare_and_swap(p, newt)
                    }
                    Form::MutPtr => {
                        let p: *mut u32 = curt.as_ref().map(|a| Arc::as_ptr(a) as *mut u32).unwrap_or(std::ptr::null_mut());
                        cont.compare_and_swap(p, newt)
                    }
                };
                let r = self.val_of(&g);
                self.guards.push(g);
                Some(r)
            }
            Op::Rcu(c, variant) => {
                let pool = self.pool.clone();
                let cont = self.conts[c as usize].as_ref().unwrap();
                let val_of = |t: &T| -> Val {
                    match t {
                        None => 0,
                        Some(a) => pool.iter().position(|p| Arc::ptr_eq(p, a)).map(|i| i as Val + 1).unwrap_or(255),
                    }
                };
                let old = cont.rcu(|cur: &T| -> T {
                    if variant == 1 {
                        // re-entrancy: the closure reads the same container
                        let g = cont.load();
                        let _ = val_of(&g);
                        let full = cont.load_full();
                        drop(full);
                    }
                    if variant == 2 {
                        return cur.clone();
                    }
                    let n = next_val(val_of(cur));
                    Some(pool[n as usize - 1].clone())
                });
                let r = self.val_of(&old);
                self.handles.push(old);
                Some(r)
            }
            Op::IntoInner(c) => {
                let cont = self.conts[c as usize].take().unwrap();
                let h = cont.into_inner();
                let r = self.val_of(&h);
                self.handles.push(h);
                Some(r)
            }
            Op::DropCont(c) => {
                drop(self.conts[c as usize].take());
                None
            }
        }
    }

    /// Exact count equation against the model state.
    pub fn check_counts(&self, m: &MState) -> Result<(), String> {
        for v in 1..=POOL as Val {
            let a = &self.pool[v as usize - 1];
            let owners = 1
                + m.conts.iter().filter(|c| **c == Some(v)).count()
                + m.handles.iter().filter(|h| **h == v).count()
                + m.guards.iter().filter(|g| **g == v).count();
            let strong = Arc::strong_count(a);
            let slots = if S::DEBTS { slots_holding(Arc::as_ptr(a) as usize) } else { 0 };
            if strong + slots != owners {
                return Err(format!(
                    "value {}: strong count {} + {} debt slot(s) != {} owners (pool 1 + containers + handles + guards) in model state {:?}",
                    v, strong, slots, owners, m
                ));
            }
            let own_min = owners - m.guards.iter().filter(|g| **g == v).count();
            if strong < own_min {
                return Err(format!("value {}: strong count {} below the {} owning references", v, strong, own_min));
            }
        }
        // what the containers hold, read back without changing anything observable
        for (i, c) in self.conts.iter().enumerate() {
            match (c, m.conts[i]) {
                (None, None) => {}
                (Some(c), Some(v)) => {
                    let g = c.load();
                    let got = self.val_of(&g);
                    if got != v {
                        return Err(format!("container {} holds value {} but the model says {}", i, got, v));
                    }
                }
                _ => return Err(format!("container {} existence differs from the model", i)),
            }
        }
        // guards keep denoting their value
        let mut gv: Vec<Val> = self.guards.iter().map(|g| self.val_of(g)).collect();
        gv.sort();
        if gv != m.guards {
            return Err(format!("guards denote {:?} but the model says {:?}", gv, m.guards));
        }
        Ok(())
    }

    /// Drop everything; afterwards every pool value must be back to exactly one reference and no
    /// debt slot may hold it.
    pub fn finish(mut self) -> Result<(), String> {
        self.guards.clear();
        self.handles.clear();
        self.conts = [None, None];
        for v in 1..=POOL {
            let a = &self.pool[v - 1];
            let strong = Arc::strong_count(a);
            let slots = slots_holding(Arc::as_ptr(a) as usize);
            if strong != 1 || slots != 0 {
                return Err(format!("after dropping everything value {} has strong count {} and sits in {} debt slot(s)", v, strong, slots));
            }
        }
        Ok(())
    }
}

/// Replays `path` on fresh real objects under strategy S and compares with the model after
/// every step. Returns a description of the first disagreement.
pub fn replay_path<S: SeqStrat>(path: &[Op], check_every_step: bool) -> Result<(), String> {
    let mut real = Real::<S>::new();
    let mut m = MState::initial();
    for (i, op) in path.iter().enumerate() {
        let (nm, expect) = m.apply(*op);
        let got = std::panic::catch_unwind(std::panic::AssertUnwindSafe(|| real.exec(*op)));
        let got = match got {
            Ok(g) => g,
            Err(_) => {
                std::mem::forget(real);
                return Err(format!("[{}] step {} {:?} panicked", S::NAME, i, op));
            }
        };
        if got != expect {
            let r = format!("[{}] step {} {:?} returned {:?}, the reference model says {:?}", S::NAME, i, op, got, expect);
            std::mem::forget(real);
            return Err(r);
        }
        m = nm;
        if check_every_step || i + 1 == path.len() {
            if let Err(e) = real.check_counts(&m) {
                std::mem::forget(real);
                return Err(format!("[{}] after step {} {:?}: {}", S::NAME, i, op, e));
            }
        }
    }
    real.finish().map_err(|e| format!("[{}] {}", S::NAME, e))
}

#[allow(deprecated)]
pub fn replay_all(path: &[Op], every: bool) -> Result<(), String> {
    replay_path::<DefaultStrategy>(path, every)?;
    replay_path::<arc_swap::strategy::test_strategies::FillFastSlots>(path, every)?;
    replay_path::<RwLock<()>>(path, every)
}

pub fn replay_all_uncapped(path: &[Op]) -> Result<(), String> {
    replay_all(path, true)
}

pub struct SearchResult {
    pub states: usize,
    pub transitions: u64,
    pub replays: u64,
    pub max_depth: usize,
    pub closed: bool,
    pub cas_transitions: u64,
    pub violation: Option<(Vec<Op>, String)>,
    pub samples: Vec<String>,
    pub ops_hist: HashMap<String, u64>,
}

/// BFS over abstract states; every transition is executed on the implementation (all three
/// strategies). `max_depth` bounds the path length (None = closure of the capped state space).
pub fn search(max_guards: usize, max_handles: usize, max_depth: Option<usize>, threads: usize, only_cas: bool) -> SearchResult {
    let mut seen: HashMap<MState, (usize, Option<(MState, Op)>)> = HashMap::new();
    let init = MState::initial();
    seen.insert(init.clone(), (0, None));
    let mut frontier: VecDeque<MState> = VecDeque::new();
    frontier.push_back(init);
    let mut res = SearchResult {
        states: 0,
        transitions: 0,
        replays: 0,
        max_depth: 0,
        closed: true,
        cas_transitions: 0,
        violation: None,
        samples: Vec::new(),
        ops_hist: HashMap::new(),
    };
    let path_of = |seen: &HashMap<MState, (usize, Option<(MState, Op)>)>, s: &MState| -> Vec<Op> {
        let mut p = Vec::new();
        let mut cur = s.clone();
        while let Some((_, Some((prev, op)))) = seen.get(&cur) {
            p.push(*op);
            cur = prev.clone();
        }
        p.reverse();
        p
    };
    // level by level so that the work of one level can be spread over threads
    while !frontier.is_empty() {
        let level: Vec<MState> = frontier.drain(..).collect();
        let depth = seen[&level[0]].0;
        res.max_depth = res.max_depth.max(depth);
        if let Some(d) = max_depth {
            if depth >= d {
                res.closed = false;
                break;
            }
        }
        // work items: (state, path to it)
        let items: Vec<(MState, Vec<Op>)> = level.iter().map(|s| (s.clone(), path_of(&seen, s))).collect();
        let next: Mutex<Vec<(MState, MState, Op)>> = Mutex::new(Vec::new());
        let viol: Mutex<Option<(Vec<Op>, String)>> = Mutex::new(None);
        let counters: Mutex<(u64, u64, u64, HashMap<String, u64>)> = Mutex::new((0, 0, 0, HashMap::new()));
        let idx = std::sync::atomic::AtomicUsize::new(0);
        std::thread::scope(|sc| {
            for _ in 0..threads.max(1) {
                sc.spawn(|| {
                    let mut local_next = Vec::new();
                    let (mut tr, mut rp, mut cas) = (0u64, 0u64, 0u64);
                    let mut hist: HashMap<String, u64> = HashMap::new();
                    loop {
                        let i = idx.fetch_add(1, std::sync::atomic::Ordering::Relaxed);
                        if i >= items.len() || viol.lock().unwrap().is_some() {
                            break;
                        }
                        let (s, path) = &items[i];
                        for op in s.enabled(max_guards, max_handles) {
                            let is_cas = matches!(op, Op::Cas(..));
                            if only_cas && !is_cas {
                                // still follow the transition in the model (to reach states), but
                                // only compare_and_swap transitions are executed for the C05 count
                            }
                            let (ns, _) = s.apply(op);
                            let mut p = path.clone();
                            p.push(op);
                            tr += 1;
                            if is_cas {
                                cas += 1;
                            }
                            let name = format!("{:?}", op);
                            let name = name.split('(').next().unwrap_or("").to_string();
                            *hist.entry(name).or_insert(0) += 1;
                            if !only_cas || is_cas {
                                rp += 3;
                                if let Err(e) = replay_all(&p, false) {
                                    let mut v = viol.lock().unwrap();
                                    if v.is_none() {
                                        *v = Some((p.clone(), e));
                                    }
                                    break;
                                }
                            }
                            local_next.push((s.clone(), ns, op));
                        }
                    }
                    next.lock().unwrap().extend(local_next);
                    let mut c = counters.lock().unwrap();
                    c.0 += tr;
                    c.1 += rp;
                    c.2 += cas;
                    for (k, v) in hist {
                        *c.3.entry(k).or_insert(0) += v;
                    }
                });
            }
        });
        let c = counters.into_inner().unwrap();
        res.transitions += c.0;
        res.replays += c.1;
        res.cas_transitions += c.2;
        for (k, v) in c.3 {
            *res.ops_hist.entry(k).or_insert(0) += v;
        }
        if let Some(v) = viol.into_inner().unwrap() {
            res.violation = Some(v);
            break;
        }
        let mut nx = next.into_inner().unwrap();
        nx.sort();
        for (from, to, op) in nx {
            if !seen.contains_key(&to) {
                seen.insert(to.clone(), (depth + 1, Some((from, op))));
                frontier.push_back(to);
            }
        }
    }
    res.states = seen.len();
    // a few sample paths (the deepest states)
    let mut deepest: Vec<(&MState, usize)> = seen.iter().map(|(s, (d, _))| (s, *d)).collect();
    deepest.sort_by_key(|(s, d)| (std::cmp::Reverse(*d), (*s).clone()));
    for (s, _) in deepest.iter().take(3) {
        res.samples.push(format!("{:?}", path_of(&seen, s)));
    }
    res
}

pub fn ops_to_json(p: &[Op]) -> serde_json::Value {
    json!(p.iter().map(|o| format!("{:?}", o)).collect::<Vec<_>>())
}
