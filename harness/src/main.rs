mod api;
mod h_core;
mod h_more;
mod instances;
mod prop;
mod runner;
mod selftest;
mod shard;
mod varc;
mod world;

use arc_swap_verif_rt as rt;
use serde_json::json;

fn flag(args: &[String], name: &str) -> Option<String> {
    args.iter().position(|a| a == name).and_then(|i| args.get(i + 1).cloned())
}

fn parse_cfg(args: &[String]) -> rt::Config {
    let mut c = rt::Config::default();
    if let Some(v) = flag(args, "--p") {
        c.p = v.parse().unwrap();
    }
    if let Some(v) = flag(args, "--s") {
        c.s = v.parse().unwrap();
    }
    if let Some(v) = flag(args, "--f") {
        c.f = v.parse().unwrap();
    }
    if let Some(v) = flag(args, "--step-cap") {
        c.step_cap = v.parse().unwrap();
    }
    if let Some(v) = flag(args, "--model") {
        c.model = match v.as_str() {
            "m1" => rt::Model::M1,
            "m2" => rt::Model::M2,
            "sc" => rt::Model::Sc,
            x => panic!("unknown model {}", x),
        };
    }
    c
}

fn parse_cfg_string(s: &str) -> rt::Config {
    // "p=2,s=1,f=1,model=M1,step_cap=5000"
    let mut c = rt::Config::default();
    for kv in s.split(',') {
        let mut it = kv.splitn(2, '=');
        let (k, v) = (it.next().unwrap_or(""), it.next().unwrap_or(""));
        match k {
            "p" => c.p = v.parse().unwrap(),
            "s" => c.s = v.parse().unwrap(),
            "f" => c.f = v.parse().unwrap(),
            "step_cap" => c.step_cap = v.parse().unwrap(),
            "model" => {
                c.model = match v {
                    "M1" => rt::Model::M1,
                    "M2" => rt::Model::M2,
                    _ => rt::Model::Sc,
                }
            }
            _ => {}
        }
    }
    c
}

const ASSUMPTIONS: &[&str] = &[
    "memory model M1 (DESIGN §5): promise-free view semantics for relaxed/acquire/release (an under-approximation of C11: no load buffering, modification order = execution order); SeqCst accesses act as full barriers; releases are A-cumulative",
    "bounds: only executions within the stated numbers of preemptions, stale reads and spurious compare_exchange_weak failures, of the stated small harnesses, are covered",
    "the engine (arc_swap_verif_rt) is trusted; it is validated by the litmus / interleaving-count / replay self tests (vh selftest)",
    "the hooks (cfg arc_swap_verif) only redirect atomics, thread-local storage and the slot-count constant; the small build uses 2 fast slots per node instead of 8",
];

fn main() {
    let args: Vec<String> = std::env::args().collect();
    match args.get(1).map(|s| s.as_str()) {
        Some("selftest") => {
            let ok = selftest::selftest();
            std::process::exit(if ok { 0 } else { 2 });
        }
        Some("list") => {
            for i in instances::all() {
                println!("{:34} size={} props={:?}  {}", i.name, i.size, i.props, i.alphabet);
            }
        }
        Some("worker") => {
            let name = args.get(2).cloned().unwrap_or_default();
            let cfg = parse_cfg(&args[3..]);
            let deciding = flag(&args, "--deciding");
            let known = flag(&args, "--known").map(|f| prop::load_known(&f)).unwrap_or_default();
            let all = instances::all();
            let inst = match all.iter().find(|i| i.name == name) {
                Some(i) => i,
                None => {
                    eprintln!("MACHINERY-ERROR unknown instance {}", name);
                    std::process::exit(2);
                }
            };
            shard::worker_main(inst, &cfg, deciding.as_deref(), &known);
        }
        Some("trace") => {
            // vh trace <instance> <choices comma separated> [cfg]
            let name = args.get(2).cloned().unwrap_or_default();
            let choices: Vec<u16> = args
                .get(3)
                .map(|s| s.split(',').filter(|x| !x.is_empty()).map(|x| x.parse().unwrap()).collect())
                .unwrap_or_default();
            let cfg = parse_cfg(&args[3..]);
            for inst in instances::all() {
                if inst.name == name {
                    let res = runner::replay_local(&inst, &cfg, &choices);
                    for l in &res.trace {
                        println!("{}", l);
                    }
                    if let Some(v) = &res.violation {
                        println!("VIOLATION {} [{}] {}", v.property, v.oracle, v.message);
                    }
                }
            }
        }
        Some("replay") => {
            // vh replay <file>: re-executes the recorded choice vector with a full trace.
            let path = args.get(2).cloned().unwrap_or_default();
            let txt = std::fs::read_to_string(&path).expect("cannot read replay file");
            let j: serde_json::Value = serde_json::from_str(&txt).expect("bad replay file");
            let build = j["build"].as_str().unwrap_or("small");
            let mine = if cfg!(feature = "small") { "small" } else { "ship" };
            if build != mine {
                eprintln!("MACHINERY-ERROR this replay was recorded with the '{}' build, this binary is '{}'", build, mine);
                std::process::exit(2);
            }
            let name = j["instance"].as_str().unwrap().to_string();
            let cfg = parse_cfg_string(j["cfg"].as_str().unwrap_or(""));
            let choices: Vec<u16> = j["choices"].as_array().unwrap().iter().map(|x| x.as_u64().unwrap() as u16).collect();
            let all = instances::all();
            let inst = all.iter().find(|i| i.name == name).expect("unknown instance");
            let res = runner::replay_local(inst, &cfg, &choices);
            for l in &res.trace {
                println!("{}", l);
            }
            match &res.violation {
                Some(v) => {
                    println!("VIOLATION property={} replay={}", v.property, path);
                    println!("  oracle={} {}", v.oracle, v.message);
                    std::process::exit(1);
                }
                None => {
                    println!("no violation on replay");
                    std::process::exit(0);
                }
            }
        }
        Some("run") => {
            let pat = args.get(2).cloned().unwrap_or_default();
            let cfg = parse_cfg(&args[3..]);
            let deciding = flag(&args, "--deciding");
            let mut bad = false;
            for inst in instances::all() {
                if !inst.name.contains(&pat) {
                    continue;
                }
                let t = std::time::Instant::now();
                let r = runner::run_local(&inst, &cfg, &[], None, deciding.as_deref(), &[]);
                println!(
                    "{:34} execs={:8} nodes={:8} steps={:10} maxsteps={:4} maxcp={:3} outcomes={:4} complete={} dev={:?} others={:?} callsteps={:?} nodes={} {:.2}s",
                    inst.name,
                    r.executions,
                    r.nodes,
                    r.steps,
                    r.max_steps,
                    r.max_choice_points,
                    r.outcomes.len(),
                    r.complete,
                    r.max_deviations,
                    r.others,
                    r.max_call_steps,
                    r.max_nodes,
                    t.elapsed().as_secs_f64()
                );
                if let Some(v) = r.deciding.as_ref().or(r.first_other.as_ref()) {
                    bad = true;
                    println!("  VIOLATION {} [{}] {}", v.property, v.oracle, v.message);
                    println!("  choices={}", v.choices.iter().map(|c| c.to_string()).collect::<Vec<_>>().join(","));
                    if args.iter().any(|a| a == "--trace") {
                        let res = runner::replay_local(&inst, &cfg, &v.choices);
                        for l in &res.trace {
                            println!("    {}", l);
                        }
                    }
                }
            }
            std::process::exit(if bad { 1 } else { 0 });
        }
        Some("prop") => {
            let t0 = std::time::Instant::now();
            let p = args.get(2).cloned().unwrap_or_default();
            let tier = match flag(&args, "--tier").as_deref() {
                Some("thorough") => prop::Tier::Thorough,
                _ => prop::Tier::Quick,
            };
            let seed: u64 = std::env::var("VERIF_SEED").ok().and_then(|s| s.parse().ok()).unwrap_or(0);
            let me = std::env::current_exe().unwrap().to_string_lossy().to_string();
            let o = prop::PropOpts {
                prop: p.clone(),
                tier,
                jobs: flag(&args, "--jobs").and_then(|s| s.parse().ok()).unwrap_or(16),
                small_bin: flag(&args, "--small-bin").unwrap_or(me),
                ship_bin: flag(&args, "--ship-bin"),
                known_file: flag(&args, "--known").unwrap_or_else(|| "/verif/known_findings.json".into()),
                evidence_dir: flag(&args, "--evidence-dir").unwrap_or_else(|| "/verif/evidence".into()),
                replay_dir: flag(&args, "--replay-dir").unwrap_or_else(|| "/verif/replays".into()),
                seed,
                only: flag(&args, "--only"),
                budget_s: flag(&args, "--budget-s").and_then(|s| s.parse().ok()),
                write_evidence: true,
            };
            let all = instances::all();
            let out = prop::run_prop(&all, &o);
            let eng = &out.evidence["engine"];
            let execs = eng["executions"].as_u64().unwrap_or(0);
            let ev = json!({
                "property_id": p,
                "tier": tier.name(),
                "seed": seed,
                "level": "model_checking",
                "coverage": {
                    "states": eng["choice_tree_nodes"].as_u64().unwrap_or(0).max(1),
                    "transitions": eng["engine_steps"].as_u64().unwrap_or(0).max(1),
                    "traces_validated_against_impl": execs,
                    "evaluations": execs,
                    "distinct_nontrivial": eng["distinct_outcomes"],
                    "rule": "every execution of every listed harness within the listed deviation bounds is enumerated (depth-first over choice vectors, cut into subtrees by the positions of the first deviations); each execution runs the real crate under the controlled scheduler and memory model. distinct = distinct (harness, hash of the per-thread call results and observations); an execution is non-trivial when it completes with a recorded history",
                    "samples": eng["samples"],
                    "exhaustive": eng["all_bounded_spaces_completed"],
                    "engine": eng,
                },
                "assumptions": ASSUMPTIONS,
                "wall_s": t0.elapsed().as_secs_f64(),
                "violations": out.violations,
            });
            let _ = std::fs::create_dir_all(&o.evidence_dir);
            let path = format!("{}/{}.json", o.evidence_dir, p);
            std::fs::write(&path, serde_json::to_string_pretty(&ev).unwrap()).expect("cannot write evidence");
            if !out.machinery_errors.is_empty() {
                for e in &out.machinery_errors {
                    println!("MACHINERY-ERROR {}", e);
                }
                std::process::exit(if out.violations > 0 { 1 } else { 2 });
            }
            std::process::exit(if out.violations > 0 { 1 } else { 0 });
        }
        _ => {
            eprintln!("usage: vh selftest | list | run <pattern> [cfg] | prop <Cxx> --tier quick|thorough | replay <file> | trace <instance> <choices> [cfg]");
            std::process::exit(2);
        }
    }
}
