mod api;
mod h_core;
mod h_more;
mod instances;
mod prop;
mod runner;
mod selftest;
mod seq;
mod seq_c15;
mod seq_more;
mod seqprops;
mod shard;
mod varc;
mod world;

use arc_swap_verif_rt as rt;
use serde_json::json;

/// println! that does not panic when stdout is a closed pipe (`./check .. | head`).
#[macro_export]
macro_rules! outln {
    ($($arg:tt)*) => {{
        use std::io::Write;
        let _ = writeln!(std::io::stdout(), $($arg)*);
    }};
}

fn flag(args: &[String], name: &str) -> Option<String> {
    args.iter().position(|a| a == name).and_then(|i| args.get(i + 1).cloned())
}

fn parse_cfg(args: &[String]) -> rt::Config {
    let mut c = rt::Config::default();
    if let Some(v) = flag(args, "--p") {
        c.p = v.parse().unwrap();
    }
    if let Some(v) = flag(args, "--s") {
        c.s = v.parse().unwrap();
    }
    if let Some(v) = flag(args, "--f") {
        c.f = v.parse().unwrap();
    }
    if let Some(v) = flag(args, "--k") {
        c.k = v.parse().unwrap();
    }
    if let Some(v) = flag(args, "--step-cap") {
        c.step_cap = v.parse().unwrap();
    }
    if let Some(v) = flag(args, "--model") {
        c.model = match v.as_str() {
            "m1" => rt::Model::M1,
            "m2" => rt::Model::M2,
            "m3" => rt::Model::M3,
            "m3l" => rt::Model::M3L,
            "sc" => rt::Model::Sc,
            x => panic!("unknown model {}", x),
        };
    }
    c
}

fn parse_cfg_string(s: &str) -> rt::Config {
    // "p=2,s=1,f=1,model=M1,step_cap=5000"
    let mut c = rt::Config::default();
    for kv in s.split(',') {
        let mut it = kv.splitn(2, '=');
        let (k, v) = (it.next().unwrap_or(""), it.next().unwrap_or(""));
        match k {
            "p" => c.p = v.parse().unwrap(),
            "s" => c.s = v.parse().unwrap(),
            "f" => c.f = v.parse().unwrap(),
            "k" => c.k = v.parse().unwrap(),
            "step_cap" => c.step_cap = v.parse().unwrap(),
            "model" => {
                c.model = match v {
                    "M1" => rt::Model::M1,
                    "M2" => rt::Model::M2,
                    "M3" => rt::Model::M3,
                    "M3L" => rt::Model::M3L,
                    _ => rt::Model::Sc,
                }
            }
            _ => {}
        }
    }
    c
}

const ASSUMPTIONS: &[&str] = &[
    "memory models (DESIGN §5): promise-free view semantics for relaxed/acquire/release (an under-approximation of C11: no load buffering, modification order = execution order); every engine instance is explored under M2 (a SeqCst access = leading SeqCst fence + acquire/release access), the small instances with stale reads in their budget also under M3L (SeqCst accesses ordered per location only, SeqCst fences as in C11, a failing compare-exchange reads the newest value); the model of each exploration is in its bounds",
    "bounds: only executions within the stated numbers of preemptions, stale reads and spurious compare_exchange_weak failures, of the stated small harnesses, are covered",
    "the engine (arc_swap_verif_rt) is trusted; it is validated by the litmus / interleaving-count / replay self tests (vh selftest)",
    "the hooks (cfg arc_swap_verif) only redirect atomics, thread-local storage and the slot-count constant; the small build uses 2 fast slots per node instead of 8",
];

fn main() {
    rt::install_panic_hook();
    let args: Vec<String> = std::env::args().collect();
    match args.get(1).map(|s| s.as_str()) {
        Some("selftest") => {
            let ok = selftest::selftest();
            std::process::exit(if ok { 0 } else { 2 });
        }
        Some("list") => {
            for i in instances::all() {
                outln!("{:34} size={} props={:?}  {}", i.name, i.size, i.props, i.alphabet);
            }
        }
        Some("worker") => {
            let name = args.get(2).cloned().unwrap_or_default();
            let cfg = parse_cfg(&args[3..]);
            let deciding = flag(&args, "--deciding");
            let known = flag(&args, "--known").map(|f| prop::load_known(&f)).unwrap_or_default();
            let all = instances::all();
            let inst = match all.iter().find(|i| i.name == name) {
                Some(i) => i,
                None => {
                    eprintln!("MACHINERY-ERROR unknown instance {}", name);
                    std::process::exit(2);
                }
            };
            shard::worker_main(inst, &cfg, deciding.as_deref(), &known);
        }
        Some("trace") => {
            // vh trace <instance> <choices comma separated> [cfg]
            let name = args.get(2).cloned().unwrap_or_default();
            let choices: Vec<u16> = args
                .get(3)
                .map(|s| s.split(',').filter(|x| !x.is_empty()).map(|x| x.parse().unwrap()).collect())
                .unwrap_or_default();
            let cfg = parse_cfg(&args[3..]);
            for inst in instances::all() {
                if inst.name == name {
                    let res = runner::replay_local(&inst, &cfg, &choices);
                    for l in &res.trace {
                        outln!("{}", l);
                    }
                    if let Some(v) = &res.violation {
                        outln!("VIOLATION {} [{}] {}", v.property, v.oracle, v.message);
                    }
                }
            }
        }
        Some("replay") => {
            // vh replay <file>: re-executes the recorded choice vector with a full trace.
            let path = args.get(2).cloned().unwrap_or_default();
            let txt = std::fs::read_to_string(&path).expect("cannot read replay file");
            let j: serde_json::Value = serde_json::from_str(&txt).expect("bad replay file");
            let build = j["build"].as_str().unwrap_or("small");
            let mine = if cfg!(feature = "small") { "small" } else { "ship" };
            if build != mine {
                eprintln!("MACHINERY-ERROR this replay was recorded with the '{}' build, this binary is '{}'", build, mine);
                std::process::exit(2);
            }
            let name = j["instance"].as_str().unwrap().to_string();
            let cfg = parse_cfg_string(j["cfg"].as_str().unwrap_or(""));
            let choices: Vec<u16> = j["choices"].as_array().unwrap().iter().map(|x| x.as_u64().unwrap() as u16).collect();
            let all = instances::all();
            let inst = all.iter().find(|i| i.name == name).expect("unknown instance");
            let res = runner::replay_local(inst, &cfg, &choices);
            for l in &res.trace {
                outln!("{}", l);
            }
            match &res.violation {
                Some(v) => {
                    outln!("VIOLATION property={} replay={}", v.property, path);
                    outln!("  oracle={} {}", v.oracle, v.message);
                    std::process::exit(1);
                }
                None => {
                    outln!("no violation on replay");
                    std::process::exit(0);
                }
            }
        }
        Some("seqsearch") => {
            // vh seqsearch <max_guards> <max_handles> <depth|0> <threads>
            let a = |i: usize, d: usize| args.get(i).and_then(|s| s.parse().ok()).unwrap_or(d);
            let t = std::time::Instant::now();
            let d = a(4, 0);
            let r = seq::search(a(2, 3), a(3, 2), if d == 0 { None } else { Some(d) }, a(5, 16), false);
            outln!(
                "states={} transitions={} replays={} max_depth={} closed={} cas={} {:.1}s",
                r.states,
                r.transitions,
                r.replays,
                r.max_depth,
                r.closed,
                r.cas_transitions,
                t.elapsed().as_secs_f64()
            );
            outln!("{:?}", r.ops_hist);
            for s in &r.samples {
                outln!("sample {}", s);
            }
            if let Some((p, e)) = r.violation {
                outln!("VIOLATION {:?}\n  {}", p, e);
            }
        }
        Some("run") => {
            let pat = args.get(2).cloned().unwrap_or_default();
            let cfg = parse_cfg(&args[3..]);
            let deciding = flag(&args, "--deciding");
            let mut bad = false;
            for inst in instances::all() {
                if !inst.name.contains(&pat) {
                    continue;
                }
                let t = std::time::Instant::now();
                let r = runner::run_local(&inst, &cfg, &[], None, deciding.as_deref(), &[]);
                outln!(
                    "{:34} execs={:8} nodes={:8} steps={:10} maxsteps={:4} maxcp={:3} outcomes={:4} complete={} dev={:?} others={:?} callsteps={:?} nodes={} {:.2}s",
                    inst.name,
                    r.executions,
                    r.nodes,
                    r.steps,
                    r.max_steps,
                    r.max_choice_points,
                    r.outcomes.len(),
                    r.complete,
                    r.max_deviations,
                    r.others,
                    r.max_call_steps,
                    r.max_nodes,
                    t.elapsed().as_secs_f64()
                );
                if let Some(v) = r.deciding.as_ref().or(r.first_other.as_ref()) {
                    bad = true;
                    outln!("  VIOLATION {} [{}] {}", v.property, v.oracle, v.message);
                    outln!("  choices={}", v.choices.iter().map(|c| c.to_string()).collect::<Vec<_>>().join(","));
                    if args.iter().any(|a| a == "--trace") {
                        let res = runner::replay_local(&inst, &cfg, &v.choices);
                        for l in &res.trace {
                            outln!("    {}", l);
                        }
                    }
                }
            }
            std::process::exit(if bad { 1 } else { 0 });
        }
        Some("seqpart") => {
            // vh seqpart <Cxx> --tier T : the sequential part in this build, as JSON on stdout
            let p = args.get(2).cloned().unwrap_or_default();
            let tier = match flag(&args, "--tier").as_deref() {
                Some("thorough") => prop::Tier::Thorough,
                _ => prop::Tier::Quick,
            };
            let out = seqprops::run(&p, tier);
            outln!("@@ {}", serde_json::to_string(&out).unwrap());
        }
        Some("prop") => {
            let t0 = std::time::Instant::now();
            let p = args.get(2).cloned().unwrap_or_default();
            let tier = match flag(&args, "--tier").as_deref() {
                Some("thorough") => prop::Tier::Thorough,
                _ => prop::Tier::Quick,
            };
            let seed: u64 = std::env::var("VERIF_SEED").ok().and_then(|s| s.parse().ok()).unwrap_or(0);
            let me = std::env::current_exe().unwrap().to_string_lossy().to_string();
            let o = prop::PropOpts {
                prop: p.clone(),
                tier,
                jobs: flag(&args, "--jobs").and_then(|s| s.parse().ok()).unwrap_or(16),
                small_bin: flag(&args, "--small-bin").unwrap_or(me),
                ship_bin: flag(&args, "--ship-bin"),
                known_file: flag(&args, "--known").unwrap_or_else(|| "/verif/known_findings.json".into()),
                evidence_dir: flag(&args, "--evidence-dir").unwrap_or_else(|| "/verif/evidence".into()),
                replay_dir: flag(&args, "--replay-dir").unwrap_or_else(|| "/verif/replays".into()),
                seed,
                only: flag(&args, "--only"),
                budget_s: flag(&args, "--budget-s").and_then(|s| s.parse().ok()),
                write_evidence: true,
            };
            let known = prop::load_known(&o.known_file);
            let all = instances::all();
            let has_engine = all.iter().any(|i| i.props.contains(&p.as_str()));
            let mut machinery: Vec<String> = Vec::new();
            let mut violations = 0u32;
            let out = if has_engine && flag(&args, "--no-engine").is_none() {
                let out = prop::run_prop(&all, &o);
                violations += out.violations;
                machinery.extend(out.machinery_errors.clone());
                Some(out)
            } else {
                None
            };
            // sequential / enumeration parts
            let mut seqs: Vec<seqprops::SeqOut> = Vec::new();
            if violations == 0 && flag(&args, "--no-seq").is_none() {
                if seqprops::has_seq_part(&p) {
                    // In a subprocess: memory corruption in the code under test must not take the
                    // check down with it; a crash is a verdict about the code, not about us.
                    match std::process::Command::new(&o.small_bin).args(["seqpart", &p, "--tier", tier.name()]).output() {
                        Ok(outp) => {
                            let txt = String::from_utf8_lossy(&outp.stdout).to_string();
                            match txt.lines().find_map(|l| l.strip_prefix("@@ ")).map(serde_json::from_str::<seqprops::SeqOut>) {
                                Some(Ok(so)) => seqs.push(so),
                                _ => {
                                    let err = String::from_utf8_lossy(&outp.stderr);
                                    let last: Vec<&str> = err.lines().rev().take(3).collect();
                                    seqs.push(seqprops::SeqOut {
                                        present: true,
                                        states: 1,
                                        transitions: 1,
                                        violations: vec![seqprops::SeqViol {
                                            case: "whole enumeration".into(),
                                            message: format!(
                                                "the sequential enumeration of this property crashed ({}) while executing the code under test: {}",
                                                outp.status,
                                                last.join(" | ")
                                            ),
                                            replay: json!({"kind": "seq", "part": "crash", "command": format!("vh seqpart {} --tier {}", p, tier.name())}),
                                        }],
                                        ..Default::default()
                                    });
                                }
                            }
                        }
                        Err(e) => machinery.push(format!("cannot run the sequential part: {}", e)),
                    }
                    if let Some(rel) = flag(&args, "--rel-bin") {
                        // same enumeration in a build without debug assertions
                        match std::process::Command::new(&rel).args(["seqpart", &p, "--tier", tier.name()]).output() {
                            Ok(outp) => {
                                let txt = String::from_utf8_lossy(&outp.stdout).to_string();
                                match txt.lines().find_map(|l| l.strip_prefix("@@ ")).map(serde_json::from_str::<seqprops::SeqOut>) {
                                    Some(Ok(so)) => seqs.push(so),
                                    _ => seqs.push(seqprops::SeqOut {
                                        present: true,
                                        states: 1,
                                        transitions: 1,
                                        violations: vec![seqprops::SeqViol {
                                            case: "whole enumeration (build without debug assertions)".into(),
                                            message: format!("the sequential enumeration crashed ({}) in the build without debug assertions while executing the code under test", outp.status),
                                            replay: json!({"kind": "seq", "part": "crash", "build": "rel", "command": format!("vh seqpart {} --tier {}", p, tier.name())}),
                                        }],
                                        ..Default::default()
                                    }),
                                }
                            }
                            Err(e) => machinery.push(format!("cannot run {}: {}", rel, e)),
                        }
                    }
                    if tier == prop::Tier::Thorough {
                        if let Some(ship) = &o.ship_bin {
                            match std::process::Command::new(ship).args(["seqpart", &p, "--tier", "thorough"]).output() {
                                Ok(outp) => {
                                    let txt = String::from_utf8_lossy(&outp.stdout).to_string();
                                    match txt.lines().find_map(|l| l.strip_prefix("@@ ")).map(serde_json::from_str::<seqprops::SeqOut>) {
                                        Some(Ok(so)) => seqs.push(so),
                                        _ => machinery.push(format!("the sequential part in the shipped-slot-count build did not answer (status {})", outp.status)),
                                    }
                                }
                                Err(e) => machinery.push(format!("cannot run {}: {}", ship, e)),
                            }
                        }
                    }
                }
                if p == "C19" {
                    let table = flag(&args, "--c19-table").unwrap_or_else(|| "/verif/.target/typecheck/table.tsv".into());
                    seqs.push(seqprops::c19(&table));
                }
            }
            let mut known_lines: Vec<String> = Vec::new();
            for so in &seqs {
                for v in &so.violations {
                    if v.message.starts_with("MACHINERY") {
                        machinery.push(v.message.clone());
                        continue;
                    }
                    if let Some(k) = known.iter().find(|k| k.matches_case(&p, &v.case, &v.message)) {
                        let line = format!("KNOWN-FINDING: property={} {}", p, k.description);
                        if !known_lines.contains(&line) {
                            known_lines.push(line);
                        }
                        continue;
                    }
                    violations += 1;
                    let _ = std::fs::create_dir_all(&o.replay_dir);
                    let mut h: u64 = 1469598103934665603;
                    for b in v.case.bytes() {
                        h = (h ^ b as u64).wrapping_mul(1099511628211);
                    }
                    let path = format!("{}/{}-seq-{:08x}.json", o.replay_dir, p, h & 0xffff_ffff);
                    let mut r = v.replay.clone();
                    if let Some(obj) = r.as_object_mut() {
                        obj.insert("property".into(), json!(p));
                        obj.insert("message".into(), json!(v.message));
                        obj.insert("case_description".into(), json!(v.case));
                    }
                    let _ = std::fs::write(&path, serde_json::to_string_pretty(&r).unwrap());
                    outln!("VIOLATION property={} replay={}", p, path);
                    outln!("  case: {}", v.case.chars().take(300).collect::<String>());
                    outln!("  {}", v.message);
                    if violations >= 5 {
                        break;
                    }
                }
            }
            for l in &known_lines {
                outln!("{}", l);
            }
            // evidence
            let empty = json!({});
            let eng = out.as_ref().map(|o| &o.evidence["engine"]).unwrap_or(&empty);
            let e_execs = eng["executions"].as_u64().unwrap_or(0);
            let s_states: u64 = seqs.iter().map(|s| s.states).sum();
            let s_trans: u64 = seqs.iter().map(|s| s.transitions).sum();
            let s_traces: u64 = seqs.iter().map(|s| s.traces).sum();
            let s_distinct: u64 = seqs.iter().map(|s| s.distinct).sum();
            let mut samples: Vec<serde_json::Value> = eng["samples"].as_array().cloned().unwrap_or_default();
            for s in &seqs {
                samples.extend(s.samples.iter().take(4).cloned());
            }
            if samples.is_empty() {
                samples.push(json!("no execution completed"));
            }
            let exhaustive = eng["all_bounded_spaces_completed"].as_bool().unwrap_or(true) && seqs.iter().all(|s| s.exhaustive) && machinery.is_empty();
            let mut rule = String::new();
            if out.is_some() {
                rule.push_str("engine part: every execution of every listed harness within the listed deviation bounds is enumerated (depth-first over choice vectors, cut into subtrees by the positions of the first deviations); each execution runs the real crate under the controlled scheduler and memory model; distinct = distinct (harness, hash of the per-thread call results and observations). ");
            }
            if !seqs.is_empty() {
                rule.push_str("sequential part: explicit-state / complete enumeration as described under coverage.sequential[].detail; every enumerated case is executed on the implementation; distinct = abstract states or distinct cases/outcomes.");
            }
            let ev = json!({
                "property_id": p,
                "tier": tier.name(),
                "seed": seed,
                "level": "model_checking",
                "coverage": {
                    "states": (eng["choice_tree_nodes"].as_u64().unwrap_or(0) + s_states).max(1),
                    "transitions": (eng["engine_steps"].as_u64().unwrap_or(0) + s_trans).max(1),
                    "traces_validated_against_impl": e_execs + s_traces,
                    "evaluations": e_execs + s_traces,
                    "distinct_nontrivial": eng["distinct_outcomes"].as_u64().unwrap_or(0) + s_distinct,
                    "rule": rule,
                    "samples": samples,
                    "exhaustive": exhaustive,
                    "engine": eng,
                    "sequential": seqs.iter().map(|s| s.detail.clone()).collect::<Vec<_>>(),
                    "known_findings_reported": known_lines,
                },
                "assumptions": ASSUMPTIONS,
                "wall_s": t0.elapsed().as_secs_f64(),
                "violations": violations,
            });
            let _ = std::fs::create_dir_all(&o.evidence_dir);
            let path = format!("{}/{}.json", o.evidence_dir, p);
            std::fs::write(&path, serde_json::to_string_pretty(&ev).unwrap()).expect("cannot write evidence");
            for e in &machinery {
                outln!("MACHINERY-ERROR {}", e);
            }
            std::process::exit(if violations > 0 { 1 } else if !machinery.is_empty() { 2 } else { 0 });
        }
        _ => {
            eprintln!("usage: vh selftest | list | run <pattern> [cfg] | prop <Cxx> --tier quick|thorough | replay <file> | trace <instance> <choices> [cfg]");
            std::process::exit(2);
        }
    }
}
