mod api;
mod h_core;
mod instances;
mod runner;
mod selftest;
mod varc;
mod world;

use arc_swap_verif_rt as rt;

fn parse_cfg(args: &[String]) -> rt::Config {
    let mut c = rt::Config::default();
    let mut i = 0;
    while i < args.len() {
        let v = |i: usize| args.get(i + 1).cloned().unwrap_or_default();
        match args[i].as_str() {
            "--p" => c.p = v(i).parse().unwrap(),
            "--s" => c.s = v(i).parse().unwrap(),
            "--f" => c.f = v(i).parse().unwrap(),
            "--model" => {
                c.model = match v(i).as_str() {
                    "m1" => rt::Model::M1,
                    "m2" => rt::Model::M2,
                    "sc" => rt::Model::Sc,
                    x => panic!("unknown model {}", x),
                }
            }
            "--step-cap" => c.step_cap = v(i).parse().unwrap(),
            _ => {
                i += 1;
                continue;
            }
        }
        i += 2;
    }
    c
}

fn main() {
    let args: Vec<String> = std::env::args().collect();
    match args.get(1).map(|s| s.as_str()) {
        Some("selftest") => {
            let ok = selftest::selftest();
            std::process::exit(if ok { 0 } else { 2 });
        }
        Some("list") => {
            for i in instances::all() {
                println!("{:28} size={} props={:?}  {}", i.name, i.size, i.props, i.alphabet);
            }
        }
        Some("trace") => {
            // vh trace <instance> <choices comma separated> [cfg]
            let name = args.get(2).cloned().unwrap_or_default();
            let choices: Vec<u16> = args.get(3).map(|s| s.split(',').filter(|x| !x.is_empty()).map(|x| x.parse().unwrap()).collect()).unwrap_or_default();
            let cfg = parse_cfg(&args[3..]);
            for inst in instances::all() {
                if inst.name == name {
                    let res = runner::replay_local(&inst, &cfg, &choices);
                    for l in &res.trace {
                        println!("{}", l);
                    }
                    if let Some(v) = &res.violation {
                        println!("VIOLATION {} [{}] {}", v.property, v.oracle, v.message);
                    }
                }
            }
        }
        Some("run") => {
            let pat = args.get(2).cloned().unwrap_or_default();
            let cfg = parse_cfg(&args[3..]);
            let deciding = args.iter().position(|a| a == "--deciding").map(|i| args[i + 1].clone());
            let mut bad = false;
            for inst in instances::all() {
                if !inst.name.contains(&pat) {
                    continue;
                }
                let t = std::time::Instant::now();
                let r = runner::run_local(&inst, &cfg, &[], None, deciding.as_deref());
                println!(
                    "{:28} execs={:8} nodes={:8} steps={:10} maxsteps={:4} maxcp={:3} outcomes={:4} complete={} dev={:?} others={:?} callsteps={:?} nodes={} {:.2}s",
                    inst.name,
                    r.executions,
                    r.nodes,
                    r.steps,
                    r.max_steps,
                    r.max_choice_points,
                    r.outcomes.len(),
                    r.complete,
                    r.max_deviations,
                    r.others,
                    r.max_call_steps,
                    r.max_nodes,
                    t.elapsed().as_secs_f64()
                );
                if let Some(v) = r.deciding.as_ref().or(r.first_other.as_ref()) {
                    bad = true;
                    println!("  VIOLATION {} [{}] {}", v.property, v.oracle, v.message);
                    println!("  choices={:?}", v.choices);
                    if args.iter().any(|a| a == "--trace") {
                        let res = runner::replay_local(&inst, &cfg, &v.choices);
                        for l in &res.trace {
                            println!("    {}", l);
                        }
                    }
                }
            }
            std::process::exit(if bad { 1 } else { 0 });
        }
        _ => {
            eprintln!("usage: vh selftest | list | run <pattern> [--p N --s N --f N --model m1|m2|sc] [--deciding Cxx] [--trace]");
            std::process::exit(2);
        }
    }
}
