mod selftest;

fn main() {
    let args: Vec<String> = std::env::args().collect();
    match args.get(1).map(|s| s.as_str()) {
        Some("selftest") => {
            let ok = selftest::selftest();
            std::process::exit(if ok { 0 } else { 2 });
        }
        _ => {
            eprintln!("usage: vh selftest | ...");
            std::process::exit(2);
        }
    }
}
