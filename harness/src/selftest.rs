//! Engine self tests: litmus programs with their C11 verdicts (as outcome *sets*), interleaving
//! count identities, replay determinism, TLS semantics, a seeded toy bug.

use std::collections::BTreeSet;
use std::sync::atomic::Ordering::{self, *};
use std::sync::{Arc, Mutex};

use arc_swap_verif_rt as rt;
use rt::atomic::{fence, AtomicUsize};
use rt::{Config, ExecResult, Model, Next};

type Outcomes = BTreeSet<Vec<usize>>;

struct Run {
    outcomes: Outcomes,
    executions: u64,
    violations: Vec<rt::Violation>,
    first_violation_choices: Option<Vec<u16>>,
}

fn run(cfg: &Config, body: impl Fn(&Mutex<Vec<usize>>) + Send + Sync + 'static) -> Run {
    let out: Arc<Mutex<Vec<usize>>> = Arc::new(Mutex::new(Vec::new()));
    let o2 = out.clone();
    let body: Arc<dyn Fn() + Send + Sync> = Arc::new(move || body(&o2));
    let mut outcomes = Outcomes::new();
    let mut violations = Vec::new();
    let mut fvc = None;
    let o3 = out.clone();
    let stats = rt::explore(
        cfg,
        &[],
        None,
        body,
        &mut || o3.lock().unwrap().clear(),
        &mut |res: &mut ExecResult| {
            if let Some(v) = &res.violation {
                if fvc.is_none() {
                    fvc = Some(res.choices.clone());
                }
                violations.push(v.clone());
            } else {
                outcomes.insert(out.lock().unwrap().clone());
            }
            Next::Continue
        },
    );
    assert!(stats.complete);
    Run { outcomes, executions: stats.executions, violations, first_violation_choices: fvc }
}

fn cfg(p: u32, s: u32, f: u32, model: Model) -> Config {
    Config { p, s, f, model, ..Config::default() }
}

fn set(v: &[&[usize]]) -> Outcomes {
    v.iter().map(|x| x.to_vec()).collect()
}

struct T {
    failed: u32,
    passed: u32,
}

impl T {
    fn check(&mut self, name: &str, ok: bool, detail: String) {
        if ok {
            self.passed += 1;
            println!("  ok   {}  {}", name, detail);
        } else {
            self.failed += 1;
            println!("  FAIL {}  {}", name, detail);
        }
    }
}

/// Two threads, results pushed in thread order: [r_t1.., r_t2..]
fn two<A, B>(out: &Mutex<Vec<usize>>, a: A, b: B)
where
    A: FnOnce() -> Vec<usize> + Send + 'static,
    B: FnOnce() -> Vec<usize> + Send + 'static,
{
    let h1 = rt::spawn(a);
    let h2 = rt::spawn(b);
    let mut r = h1.join().unwrap();
    r.extend(h2.join().unwrap());
    out.lock().unwrap().extend(r);
}

fn sb(o1: Ordering, o2: Ordering) -> impl Fn(&Mutex<Vec<usize>>) + Send + Sync + 'static {
    move |out| {
        let x = Arc::new(AtomicUsize::new(0));
        let y = Arc::new(AtomicUsize::new(0));
        let (x2, y2) = (x.clone(), y.clone());
        two(
            out,
            move || {
                x.store(1, o1);
                vec![y.load(o2)]
            },
            move || {
                y2.store(1, o1);
                vec![x2.load(o2)]
            },
        );
    }
}

fn mp(st: Ordering, ld: Ordering) -> impl Fn(&Mutex<Vec<usize>>) + Send + Sync + 'static {
    move |out| {
        let d = Arc::new(AtomicUsize::new(0));
        let f = Arc::new(AtomicUsize::new(0));
        let (d2, f2) = (d.clone(), f.clone());
        two(
            out,
            move || {
                d.store(1, Relaxed);
                f.store(1, st);
                vec![]
            },
            move || {
                let a = f2.load(ld);
                let b = d2.load(Relaxed);
                vec![a, b]
            },
        );
    }
}

pub fn selftest() -> bool {
    let mut t = T { failed: 0, passed: 0 };
    let m1 = |p, s, f| cfg(p, s, f, Model::M1);

    // --- store buffering
    let r = run(&m1(3, 2, 0), sb(Relaxed, Relaxed));
    t.check("SB rlx allows 0,0", r.outcomes == set(&[&[0, 0], &[0, 1], &[1, 0], &[1, 1]]), format!("{:?} execs={}", r.outcomes, r.executions));
    let r = run(&m1(3, 2, 0), sb(Release, Acquire));
    t.check("SB rel/acq allows 0,0", r.outcomes.contains(&vec![0, 0]), format!("{:?}", r.outcomes));
    let r = run(&m1(3, 2, 0), sb(SeqCst, SeqCst));
    t.check("SB sc forbids 0,0", r.outcomes == set(&[&[0, 1], &[1, 0], &[1, 1]]), format!("{:?} execs={}", r.outcomes, r.executions));
    let r = run(&cfg(3, 2, 0, Model::M2), sb(SeqCst, SeqCst));
    t.check("SB sc forbids 0,0 (M2)", r.outcomes == set(&[&[0, 1], &[1, 0], &[1, 1]]), format!("{:?}", r.outcomes));
    // SB with SC stores and SC RMW-reads replaced by one side relaxed load: allowed again
    let r = run(&m1(3, 2, 0), sb(SeqCst, Relaxed));
    t.check("SB sc-store/rlx-load: M1 forbids 0,0 (store is a full barrier)", !r.outcomes.contains(&vec![0, 0]), format!("{:?}", r.outcomes));
    let r = run(&cfg(3, 2, 0, Model::M2), sb(SeqCst, Relaxed));
    t.check("SB sc-store/rlx-load: M2 allows 0,0 (C11 does)", r.outcomes.contains(&vec![0, 0]), format!("{:?}", r.outcomes));

    // --- message passing
    let r = run(&m1(3, 2, 0), mp(Relaxed, Relaxed));
    t.check("MP rlx allows 1,0", r.outcomes.contains(&vec![1, 0]), format!("{:?}", r.outcomes));
    let r = run(&m1(3, 2, 0), mp(Release, Acquire));
    t.check("MP rel/acq forbids 1,0", r.outcomes == set(&[&[0, 0], &[0, 1], &[1, 1]]), format!("{:?}", r.outcomes));
    let r = run(&m1(3, 2, 0), mp(Release, Relaxed));
    t.check("MP rel/rlx allows 1,0", r.outcomes.contains(&vec![1, 0]), format!("{:?}", r.outcomes));
    let r = run(&m1(3, 2, 0), mp(Relaxed, Acquire));
    t.check("MP rlx/acq allows 1,0", r.outcomes.contains(&vec![1, 0]), format!("{:?}", r.outcomes));

    // --- MP with fences
    let r = run(&m1(3, 2, 0), |out| {
        let d = Arc::new(AtomicUsize::new(0));
        let f = Arc::new(AtomicUsize::new(0));
        let (d2, f2) = (d.clone(), f.clone());
        two(
            out,
            move || {
                d.store(1, Relaxed);
                fence(Release);
                f.store(1, Relaxed);
                vec![]
            },
            move || {
                let a = f2.load(Relaxed);
                fence(Acquire);
                let b = d2.load(Relaxed);
                vec![a, b]
            },
        );
    });
    t.check("MP fence-fence forbids 1,0", r.outcomes == set(&[&[0, 0], &[0, 1], &[1, 1]]), format!("{:?}", r.outcomes));

    // --- coherence: CoRR (two reads of one location by one thread never go backwards)
    let r = run(&m1(3, 3, 0), |out| {
        let x = Arc::new(AtomicUsize::new(0));
        let x2 = x.clone();
        two(
            out,
            move || {
                x.store(1, Relaxed);
                x.store(2, Relaxed);
                vec![]
            },
            move || {
                let a = x2.load(Relaxed);
                let b = x2.load(Relaxed);
                vec![a, b]
            },
        );
    });
    let bad = r.outcomes.iter().any(|o| o[0] > o[1]);
    t.check("CoRR", !bad && r.outcomes.len() == 6, format!("{:?}", r.outcomes));

    // --- CoWR: a thread reads its own write or newer
    let r = run(&m1(3, 3, 0), |out| {
        let x = Arc::new(AtomicUsize::new(0));
        let x2 = x.clone();
        two(
            out,
            move || {
                x.store(1, Relaxed);
                vec![x.load(Relaxed)]
            },
            move || {
                x2.store(2, Relaxed);
                vec![x2.load(Relaxed)]
            },
        );
    });
    let bad = r.outcomes.iter().any(|o| o[0] == 0 || o[1] == 0);
    t.check("CoWR", !bad, format!("{:?}", r.outcomes));

    // --- RMW atomicity: two fetch_add never lose an update; relaxed increments
    let r = run(&m1(4, 3, 0), |out| {
        let x = Arc::new(AtomicUsize::new(0));
        let x2 = x.clone();
        let x3 = x.clone();
        two(
            out,
            move || vec![x.fetch_add(1, Relaxed)],
            move || vec![x2.fetch_add(1, Relaxed)],
        );
        out.lock().unwrap().push(x3.load(Relaxed));
    });
    t.check("RMW atomicity", r.outcomes == set(&[&[0, 1, 2], &[1, 0, 2]]), format!("{:?}", r.outcomes));

    // --- lost update with load+store is found at P=1 (seeded toy bug)
    let r = run(&m1(1, 0, 0), |out| {
        let x = Arc::new(AtomicUsize::new(0));
        let x2 = x.clone();
        let x3 = x.clone();
        two(
            out,
            move || {
                let v = x.load(SeqCst);
                x.store(v + 1, SeqCst);
                vec![]
            },
            move || {
                let v = x2.load(SeqCst);
                x2.store(v + 1, SeqCst);
                vec![]
            },
        );
        out.lock().unwrap().push(x3.load(SeqCst));
    });
    t.check("lost update found at P=1", r.outcomes == set(&[&[1], &[2]]), format!("{:?}", r.outcomes));
    let r0 = run(&m1(0, 0, 0), |out| {
        let x = Arc::new(AtomicUsize::new(0));
        let x2 = x.clone();
        let x3 = x.clone();
        two(
            out,
            move || {
                let v = x.load(SeqCst);
                x.store(v + 1, SeqCst);
                vec![]
            },
            move || {
                let v = x2.load(SeqCst);
                x2.store(v + 1, SeqCst);
                vec![]
            },
        );
        out.lock().unwrap().push(x3.load(SeqCst));
    });
    t.check("lost update not found at P=0", r0.outcomes == set(&[&[2]]), format!("{:?}", r0.outcomes));

    // --- release sequence through an RMW: acquire of the RMW's value sees the head's data
    let r = run(&m1(4, 3, 0), |out| {
        let d = Arc::new(AtomicUsize::new(0));
        let f = Arc::new(AtomicUsize::new(0));
        let (d2, f2, f3) = (d.clone(), f.clone(), f.clone());
        let h1 = rt::spawn(move || {
            d.store(1, Relaxed);
            f.store(1, Release);
        });
        let h2 = rt::spawn(move || {
            f3.fetch_add(1, Relaxed);
        });
        let h3 = rt::spawn(move || {
            let a = f2.load(Acquire);
            let b = d2.load(Relaxed);
            vec![a, b]
        });
        h1.join();
        h2.join();
        let r = h3.join().unwrap();
        out.lock().unwrap().extend(r);
    });
    // f==2 means the RMW read the release store (or came first: 1 then store overwrote.. no: store sets 1)
    // Possible final f values seen: 0,1,2. If a==2 then the RMW followed the release store, so b must be 1.
    let bad = r.outcomes.iter().any(|o| o[0] == 2 && o[1] == 0);
    let has2 = r.outcomes.iter().any(|o| o[0] == 2);
    t.check("release sequence through RMW", !bad && has2, format!("{:?}", r.outcomes));

    // --- IRIW with SeqCst: readers agree on the order of the two writes
    let r = run(&m1(3, 4, 0), |out| {
        let x = Arc::new(AtomicUsize::new(0));
        let y = Arc::new(AtomicUsize::new(0));
        let (xa, ya, xb, yb) = (x.clone(), y.clone(), x.clone(), y.clone());
        let h1 = rt::spawn(move || x.store(1, SeqCst));
        let h2 = rt::spawn(move || y.store(1, SeqCst));
        let h3 = rt::spawn(move || vec![xa.load(SeqCst), ya.load(SeqCst)]);
        let h4 = rt::spawn(move || vec![yb.load(SeqCst), xb.load(SeqCst)]);
        h1.join();
        h2.join();
        let mut r = h3.join().unwrap();
        r.extend(h4.join().unwrap());
        out.lock().unwrap().extend(r);
    });
    t.check("IRIW sc forbids 1,0,1,0", !r.outcomes.contains(&vec![1, 0, 1, 0]), format!("{} outcomes, execs={}", r.outcomes.len(), r.executions));
    let r = run(&m1(3, 4, 0), |out| {
        let x = Arc::new(AtomicUsize::new(0));
        let y = Arc::new(AtomicUsize::new(0));
        let (xa, ya, xb, yb) = (x.clone(), y.clone(), x.clone(), y.clone());
        let h1 = rt::spawn(move || x.store(1, Relaxed));
        let h2 = rt::spawn(move || y.store(1, Relaxed));
        let h3 = rt::spawn(move || vec![xa.load(Relaxed), ya.load(Relaxed)]);
        let h4 = rt::spawn(move || vec![yb.load(Relaxed), xb.load(Relaxed)]);
        h1.join();
        h2.join();
        let mut r = h3.join().unwrap();
        r.extend(h4.join().unwrap());
        out.lock().unwrap().extend(r);
    });
    t.check("IRIW rlx allows 1,0,1,0", r.outcomes.contains(&vec![1, 0, 1, 0]), format!("{} outcomes, execs={}", r.outcomes.len(), r.executions));

    // --- SC load does not read past a newer SC store that precedes it in execution order
    let r = run(&m1(3, 3, 0), |out| {
        let x = Arc::new(AtomicUsize::new(0));
        let f = Arc::new(AtomicUsize::new(0));
        let (x2, f2) = (x.clone(), f.clone());
        two(
            out,
            move || {
                x.store(1, SeqCst);
                f.store(1, Relaxed);
                vec![]
            },
            move || {
                let a = f2.load(Relaxed);
                let b = x2.load(SeqCst);
                vec![a, b]
            },
        );
    });
    t.check("sc load after sc store (via rlx flag) reads it", !r.outcomes.contains(&vec![1, 0]), format!("{:?}", r.outcomes));

    // --- failed CAS may read stale; weak CAS may fail spuriously
    let r = run(&m1(3, 2, 1), |out| {
        let x = Arc::new(AtomicUsize::new(0));
        let x2 = x.clone();
        two(
            out,
            move || {
                x.store(1, Relaxed);
                x.store(2, Relaxed);
                vec![]
            },
            move || match x2.compare_exchange(2, 5, Relaxed, Relaxed) {
                Ok(v) => vec![1, v],
                Err(v) => vec![0, v],
            },
        );
    });
    t.check("strong CAS: fails reading 0 or 1 (also stale), succeeds on 2", r.outcomes == set(&[&[0, 0], &[0, 1], &[1, 2]]), format!("{:?}", r.outcomes));
    let r = run(&m1(0, 0, 1), |out| {
        let x = AtomicUsize::new(7);
        let r = match x.compare_exchange_weak(7, 8, SeqCst, Relaxed) {
            Ok(v) => vec![1, v],
            Err(v) => vec![0, v],
        };
        out.lock().unwrap().extend(r);
    });
    t.check("weak CAS spurious failure explored", r.outcomes == set(&[&[1, 7], &[0, 7]]), format!("{:?}", r.outcomes));

    // --- race cells: unsynchronised write/read is reported, release/acquire is not
    let race_body = |st: Ordering, ld: Ordering| {
        move |_out: &Mutex<Vec<usize>>| {
            let c = Arc::new(rt::cell::VCell::new(0usize));
            let f = Arc::new(AtomicUsize::new(0));
            let (c2, f2) = (c.clone(), f.clone());
            let h1 = rt::spawn(move || {
                c.write("cell", |v| *v = 1);
                f.store(1, st);
            });
            let h2 = rt::spawn(move || {
                if f2.load(ld) == 1 {
                    c2.read("cell", |v| *v);
                }
            });
            h1.join();
            h2.join();
        }
    };
    let r = run(&m1(2, 1, 0), race_body(Release, Acquire));
    t.check("race cell: rel/acq clean", r.violations.is_empty(), format!("execs={}", r.executions));
    let r = run(&m1(2, 1, 0), race_body(Relaxed, Acquire));
    t.check("race cell: rlx store racy", !r.violations.is_empty(), format!("violations={}", r.violations.len()));
    let r = run(&m1(2, 1, 0), race_body(Release, Relaxed));
    t.check("race cell: rlx load racy", !r.violations.is_empty(), format!("violations={}", r.violations.len()));

    // --- A-cumulativity (M1) vs strict (M2): T1 writes cell, releases f; T2 reads f relaxed, releases g;
    //     T3 acquires g then writes the cell.
    let cum = |_out: &Mutex<Vec<usize>>| {
        let c = Arc::new(rt::cell::VCell::new(0usize));
        let f = Arc::new(AtomicUsize::new(0));
        let g = Arc::new(AtomicUsize::new(0));
        let (c3, f2, g2, g3) = (c.clone(), f.clone(), g.clone(), g.clone());
        let h1 = rt::spawn(move || {
            c.write("cell", |v| *v = 1);
            f.store(1, Release);
        });
        let h2 = rt::spawn(move || {
            if f2.load(Relaxed) == 1 {
                g2.store(1, Release);
            }
        });
        let h3 = rt::spawn(move || {
            if g3.load(Acquire) == 1 {
                c3.write("cell", |v| *v = 2);
            }
        });
        h1.join();
        h2.join();
        h3.join();
        let _ = g;
    };
    let r = run(&m1(2, 1, 0), cum);
    t.check("cumulativity: M1 sees no race", r.violations.is_empty(), format!("execs={}", r.executions));
    let r = run(&cfg(2, 1, 0, Model::M2), cum);
    t.check("cumulativity: M2 (strict C11) reports the race", !r.violations.is_empty(), format!("violations={}", r.violations.len()));

    // --- interleaving coverage: 2 threads x n invisible steps: all C(2n,n) interleavings seen
    for n in [2usize, 3, 4] {
        let r = run(&cfg(100, 0, 0, Model::Sc), move |out| {
            let log = Arc::new(Mutex::new(Vec::new()));
            let x = Arc::new(AtomicUsize::new(0));
            let (l1, l2, x1, x2) = (log.clone(), log.clone(), x.clone(), x.clone());
            let h1 = rt::spawn(move || {
                for _ in 0..n {
                    x1.load(Relaxed);
                    l1.lock().unwrap().push(1usize);
                }
            });
            let h2 = rt::spawn(move || {
                for _ in 0..n {
                    x2.load(Relaxed);
                    l2.lock().unwrap().push(2usize);
                }
            });
            h1.join();
            h2.join();
            out.lock().unwrap().extend(log.lock().unwrap().iter());
        });
        let expect = (1..=n).fold(1usize, |acc, k| acc * (n + k) / k);
        t.check(
            &format!("all C({},{})={} interleavings covered", 2 * n, n, expect),
            r.outcomes.len() == expect,
            format!("distinct={} executions={}", r.outcomes.len(), r.executions),
        );
    }
    // with P=0 only the two serial orders
    let r = run(&cfg(0, 0, 0, Model::Sc), move |out| {
        let log = Arc::new(Mutex::new(Vec::new()));
        let x = Arc::new(AtomicUsize::new(0));
        let (l1, l2, x1, x2) = (log.clone(), log.clone(), x.clone(), x.clone());
        let h1 = rt::spawn(move || {
            for _ in 0..3 {
                x1.load(Relaxed);
                l1.lock().unwrap().push(1usize);
            }
        });
        let h2 = rt::spawn(move || {
            for _ in 0..3 {
                x2.load(Relaxed);
                l2.lock().unwrap().push(2usize);
            }
        });
        h1.join();
        h2.join();
        out.lock().unwrap().extend(log.lock().unwrap().iter());
    });
    t.check("P=0: exactly the serial orders", r.outcomes.len() == 2, format!("distinct={} executions={}", r.outcomes.len(), r.executions));

    // --- TLS: lazily created, destroyed at thread end under the scheduler, access during/after
    //     teardown fails, a key first touched after teardown is created and destroyed later.
    {
        struct D(&'static str);
        impl Drop for D {
            fn drop(&mut self) {
                TLS_LOG.lock().unwrap().push(format!("drop {}", self.0));
                // access to the other key from a destructor
                let r = KEY_B.try_with(|_| ());
                TLS_LOG.lock().unwrap().push(format!("B from dtor of {}: {}", self.0, r.is_ok()));
            }
        }
        static TLS_LOG: Mutex<Vec<String>> = Mutex::new(Vec::new());
        rt::thread_local! { static KEY_A: D = D("a"); }
        rt::thread_local! { static KEY_B: usize = 5; }
        let r = run(&m1(0, 0, 0), |out| {
            TLS_LOG.lock().unwrap().clear();
            let h = rt::spawn(|| {
                KEY_A.with(|_| ());
                rt::tls_teardown();
                let again = KEY_A.try_with(|_| ()).is_ok();
                TLS_LOG.lock().unwrap().push(format!("A after teardown: {}", again));
            });
            h.join();
            let log = TLS_LOG.lock().unwrap().clone();
            let expect = vec!["drop a", "B from dtor of a: true", "A after teardown: false"];
            out.lock().unwrap().push((log == expect) as usize);
            if log != expect {
                println!("     tls log: {:?}", log);
            }
        });
        t.check("TLS semantics", r.outcomes == set(&[&[1]]), format!("{:?}", r.outcomes));
    }

    // --- replay determinism: replaying the first violating choice vector gives the same violation
    {
        let body = race_body(Relaxed, Acquire);
        let r = run(&m1(2, 1, 0), body);
        let ch = r.first_violation_choices.clone().unwrap();
        let body: Arc<dyn Fn() + Send + Sync> = {
            let b = race_body(Relaxed, Acquire);
            let m = Arc::new(Mutex::new(Vec::new()));
            Arc::new(move || b(&m))
        };
        let mut c = m1(2, 1, 0);
        c.trace = true;
        let a = rt::replay(&c, &ch, body.clone(), &mut || {}, &mut |_| {});
        let b = rt::replay(&c, &ch, body, &mut || {}, &mut |_| {});
        t.check(
            "replay determinism",
            a.violation.is_some() && a.trace == b.trace && a.violation.as_ref().unwrap().message == b.violation.as_ref().unwrap().message,
            format!("choices={:?} trace_len={}", ch, a.trace.len()),
        );
    }

    println!("selftest: {} passed, {} failed", t.passed, t.failed);
    t.failed == 0
}
