//! Runs one harness instance: bounded exhaustive exploration in this process (optionally below a
//! choice prefix), with the per-execution reset / final-state oracle / outcome bookkeeping.

use std::collections::{BTreeMap, HashSet};
use std::sync::Arc;

use arc_swap_verif_rt as rt;
use rt::{Config, ExecResult, Next};

use crate::varc::{self, AllocMode};
use crate::world::{self, Kind};

pub struct Inst {
    pub name: String,
    /// Properties whose checks run this instance.
    pub props: Vec<&'static str>,
    pub mode: AllocMode,
    pub body: Arc<dyn Fn() + Send + Sync>,
    /// Budget of free atomic-call placements (see rt::Config::k); 0 = plain preemption bounding.
    pub k: u32,
    /// Explicit (preemptions, placements) pairs per tier, each explored completely; when
    /// non-empty they replace `k`/`p_with_k` (families whose cost grows too fast in either).
    pub pk_quick: Vec<(u32, u32)>,
    pub pk_thorough: Vec<(u32, u32)>,
    /// Not explored in the ship build configuration (variants of an instance that already is).
    pub no_ship: bool,
    /// Explicit (preemptions, stale reads, spurious failures) for the small build per tier,
    /// replacing the defaults of the size class (and the ship-build plan of the thorough tier):
    /// for instances whose cost grows too fast with the default thorough bounds.
    pub bounds_quick: Option<(u32, u32, u32)>,
    pub bounds_thorough: Option<(u32, u32, u32)>,
    /// An additional exploration of the first plan under model M3L with this many stale reads
    /// (families whose regular plans have none, but where one stale read is the whole point).
    pub m3l_stale: Option<u32>,
    /// Preemption bound to use together with k (None = the tier's default).
    pub p_with_k: Option<u32>,
    /// Too large for the quick tier at the bound where it is useful.
    pub thorough_only: bool,
    /// Whether every value must be dead at the end (false for harnesses that deliberately leak).
    pub expect_all_dead: bool,
    pub tls_reverse: bool,
    /// Rough size class: 0 = tiny ... 3 = large; selects the bounds per tier.
    pub size: u8,
    pub alphabet: &'static str,
}

#[derive(Clone, Debug)]
pub struct ViolRec {
    pub instance: String,
    pub property: String,
    pub oracle: String,
    pub message: String,
    pub choices: Vec<u16>,
    pub cfg: String,
}

#[derive(Default, Debug)]
pub struct RunResult {
    pub executions: u64,
    pub nodes: u64,
    pub steps: u64,
    pub max_steps: u64,
    pub max_choice_points: usize,
    pub complete: bool,
    pub outcomes: HashSet<u64>,
    pub deciding: Option<ViolRec>,
    /// Violations that match an entry of the known-findings file (index, first occurrence).
    pub known_hits: Vec<(usize, ViolRec)>,
    pub others: BTreeMap<String, u64>,
    pub first_other: Option<ViolRec>,
    pub max_call_steps: BTreeMap<String, u64>,
    pub max_nodes: usize,
    pub max_deviations: (u32, u32, u32),
    /// The execution in which a load / load_full took the most own steps.
    pub max_load: (u64, Vec<u16>),
    /// Set when the exploration had to stop because a panic tainted this process (and the
    /// panic did not decide the property): the subtrees somebody else has to explore.
    pub resume: Option<Vec<Vec<u16>>>,
}

pub fn cfg_string(c: &Config) -> String {
    format!("p={},s={},f={},k={},model={:?},step_cap={}", c.p, c.s, c.f, c.k, c.model, c.step_cap)
}

pub fn matches(tags: &str, deciding: Option<&str>) -> bool {
    match deciding {
        None => true,
        Some(d) => tags.split(',').any(|t| t == d),
    }
}

fn kind_name(k: Kind) -> &'static str {
    match k {
        Kind::Load => "load",
        Kind::LoadFull => "load_full",
        Kind::Store => "store",
        Kind::Swap => "swap",
        Kind::Cas => "compare_and_swap",
        Kind::Rcu => "rcu",
        Kind::CacheLoad => "cache.load",
    }
}

fn before_exec(inst: &Inst) {
    varc::reset(inst.mode);
    world::reset();
}

/// Runs after every execution on the controller; may add an end-state violation.
fn after_exec(inst: &Inst, res: &mut ExecResult) {
    if res.violation.is_none() {
        if let Some((p, o, m)) = world::final_state_violation(inst.expect_all_dead) {
            res.violation = Some(rt::Violation { property: p, oracle: o, message: m, tid: 0, step: res.steps });
        }
    }
    unsafe { arc_swap::verif::reset() };
}

pub fn run_local(
    inst: &Inst,
    cfg: &Config,
    prefix: &[u16],
    limit_depth: Option<usize>,
    deciding: Option<&str>,
    known: &[crate::prop::Known],
) -> RunResult {
    let mut out = RunResult::default();
    let mut cfg = cfg.clone();
    if cfg.k == rt::K_FROM_INSTANCE {
        cfg.k = inst.k;
    }
    cfg.tls_reverse = inst.tls_reverse;
    let cfgs = cfg_string(&cfg);
    let mut stopped_tainted = false;
    let stats = rt::explore(
        &cfg,
        prefix,
        limit_depth,
        inst.body.clone(),
        &mut || before_exec(inst),
        &mut |res: &mut ExecResult| {
            after_exec(inst, res);
            out.max_deviations.0 = out.max_deviations.0.max(res.preemptions);
            out.max_deviations.1 = out.max_deviations.1.max(res.stale_reads);
            out.max_deviations.2 = out.max_deviations.2.max(res.spurious);
            world::world(|w| {
                for (k, v) in &w.max_steps {
                    let e = out.max_call_steps.entry(kind_name(*k).to_string()).or_insert(0);
                    if *v > *e {
                        *e = *v;
                    }
                    if matches!(k, Kind::Load | Kind::LoadFull) && *v > out.max_load.0 {
                        out.max_load = (*v, res.choices.clone());
                    }
                }
                out.max_nodes = out.max_nodes.max(w.max_nodes);
            });
            match &res.violation {
                None => {
                    out.outcomes.insert(world::outcome_hash());
                    Next::Continue
                }
                Some(v) => {
                    let rec = ViolRec {
                        instance: inst.name.clone(),
                        property: v.property.clone(),
                        oracle: v.oracle.clone(),
                        message: v.message.clone(),
                        choices: res.choices.clone(),
                        cfg: cfgs.clone(),
                    };
                    if matches(&v.property, deciding) {
                        if let Some(i) = known.iter().position(|k| k.matches(&rec)) {
                            // A recorded finding: reported once, the search goes on.
                            if !out.known_hits.iter().any(|(j, _)| *j == i) {
                                out.known_hits.push((i, rec));
                            }
                            if rt::tainted() {
                                stopped_tainted = true;
                                return Next::Stop;
                            }
                            return Next::Continue;
                        }
                        out.deciding = Some(rec);
                        Next::Stop
                    } else {
                        *out.others.entry(v.property.clone()).or_insert(0) += 1;
                        if out.first_other.is_none() {
                            out.first_other = Some(rec);
                        }
                        if rt::tainted() {
                            // a panic was cut short on this OS thread: one more would abort
                            stopped_tainted = true;
                            Next::Stop
                        } else {
                            Next::Continue
                        }
                    }
                }
            }
        },
    );
    out.executions = stats.executions;
    out.nodes = stats.nodes;
    out.steps = stats.steps;
    out.max_steps = stats.max_steps;
    out.max_choice_points = stats.max_choice_points;
    out.complete = stats.complete;
    if stopped_tainted {
        out.resume = Some(stats.remaining);
    }
    out
}

/// The single execution below `prefix` that takes every default afterwards: result, number of
/// alternatives at each later choice point, recorded call history.
pub fn probe_local(
    inst: &Inst,
    cfg: &Config,
    prefix: &[u16],
    deciding: Option<&str>,
    known: &[crate::prop::Known],
) -> (RunResult, Vec<u16>, Vec<String>) {
    // limit_depth = prefix length: exactly one execution, no alternatives taken below.
    let mut ns = Vec::new();
    let mut hist = Vec::new();
    let mut cfg2 = cfg.clone();
    if cfg2.k == rt::K_FROM_INSTANCE {
        cfg2.k = inst.k;
    }
    cfg2.tls_reverse = inst.tls_reverse;
    // A probe is an exploration limited to the prefix depth; the alternatives come from rt::probe.
    let (res, n) = rt::probe(&cfg2, prefix, inst.body.clone(), &mut || before_exec(inst), &mut |res| {
        hist = world::fmt_history(None);
        after_exec(inst, res);
    });
    ns.extend(n);
    let mut out = RunResult::default();
    out.executions = 1;
    out.nodes = ns.len() as u64;
    out.steps = res.steps;
    out.max_steps = res.steps;
    out.max_choice_points = prefix.len() + ns.len();
    out.complete = true;
    out.max_deviations = (res.preemptions, res.stale_reads, res.spurious);
    world::world(|w| {
        for (k, v) in &w.max_steps {
            out.max_call_steps.insert(kind_name(*k).to_string(), *v);
            if matches!(k, Kind::Load | Kind::LoadFull) && *v > out.max_load.0 {
                out.max_load = (*v, res.choices.clone());
            }
        }
        out.max_nodes = w.max_nodes;
    });
    match &res.violation {
        None => {
            out.outcomes.insert(world::outcome_hash());
        }
        Some(v) => {
            let rec = ViolRec {
                instance: inst.name.clone(),
                property: v.property.clone(),
                oracle: v.oracle.clone(),
                message: v.message.clone(),
                choices: res.choices.clone(),
                cfg: cfg_string(&cfg2),
            };
            if matches(&v.property, deciding) {
                if let Some(i) = known.iter().position(|k| k.matches(&rec)) {
                    out.known_hits.push((i, rec));
                } else {
                    out.deciding = Some(rec);
                }
            } else {
                out.others.insert(v.property.clone(), 1);
                out.first_other = Some(rec);
            }
        }
    }
    (out, ns, hist)
}

/// Replays one choice vector with a trace; returns (result, trace text).
pub fn replay_local(inst: &Inst, cfg: &Config, choices: &[u16]) -> ExecResult {
    let mut cfg = cfg.clone();
    if cfg.k == rt::K_FROM_INSTANCE {
        cfg.k = inst.k;
    }
    cfg.tls_reverse = inst.tls_reverse;
    cfg.trace = true;
    rt::replay(&cfg, choices, inst.body.clone(), &mut || before_exec(inst), &mut |res| {
        let mut extra = world::fmt_history(None);
        after_exec(inst, res);
        res.trace.push("--- recorded call history ---".into());
        res.trace.append(&mut extra);
    })
}
